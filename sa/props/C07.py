"""C07 -- extension additions keep old and new versions interoperable (DESIGN.md section 4 C07)."""
import ast
import re

from ..model import AnalysisError, Model, walk_no_nested, norm_stmt, names_in
from .. import flow, protocol, sem

EXPLANATION = (
    'Decided for every decoding codec (ber, per, oer, jer, xer; der/uper inherit): (R1) every decode entry point of ENUMERATED and CHOICE '
    '(decode, decode_content, decode_of, decode_additions) has a path, conditional on the failed lookup of the received item and on the '
    'extensibility of the type, that yields the absent value (None / (None, None)) instead of raising -- two entry points of one class that '
    'disagree cannot both be right; an unknown CHOICE alternative is consumed by its length; SEQUENCE/SET decoders skip unknown trailing data '
    '(BER: end_offset; PER/OER: skip_bits(8 * length read for that addition); JER/XER: only known members are looked up); (R2) the skip uses '
    'the length read in the same iteration; (R3) the extension bit/bitmap is emitted iff the type has additions (shared with C01.R1); (R4) BER '
    'decodes additions leniently (ignore_missing=True) and only additions; (R5) in PER/OER every open-type length of an addition is read under '
    'the test of its own presence bit, inside the loop over all presence bits (the number of open types consumed equals the number of bits set).  '
    'Not decided: projection equality for all version pairs and values; known additions that are longer in the newer version.')
RELS = {c: 'asn1tools/codecs/%s.py' % c for c in ('ber', 'per', 'uper', 'oer', 'jer', 'xer')}
ENTRY = ('decode', 'decode_content', 'decode_of', 'decode_additions', 'decode_root')


def class_helpers(c, f, depth=2):
    """f and the methods of its class that it calls through self (to a small depth), entry points excluded."""
    seen = [f]
    frontier = [f]
    for _ in range(depth):
        nxt = []
        for g in frontier:
            for call in walk_no_nested(g):
                if isinstance(call, ast.Call) and isinstance(call.func, ast.Attribute) and isinstance(call.func.value, ast.Name) and call.func.value.id == 'self':
                    r = c.find_method(call.func.attr)
                    if r and r[1] not in seen and r[1].name not in ENTRY:
                        seen.append(r[1])
                        nxt.append(r[1])
        frontier = nxt
    return seen


def _first_flat(e):
    while isinstance(e, ast.Tuple) and e.elts:
        e = e.elts[0]
    return e


def absent_paths(f):
    """Paths of f that return the absent value (None first: None, (None, None), ((None, None), offset)) for an item the type does
    not know -- by an explicit test (failed lookup / extensibility condition) or by a dict .get() on a map of additions.
    -> (list of (path, how), decided)"""
    ps = sem.paths(f)
    if ps is None:
        return [], False
    out = []
    for p in ps:
        if p.outcome[0] != 'return' or len(p.outcome) < 4:
            continue
        e = _first_flat(p.outcome[3])
        if isinstance(e, ast.Constant) and e.value is None:
            ext = p.mentions('has_extension_marker') or p.mentions('addition')
            failed = any((not c[1]) and ' in self.' in c[0] for c in p.conds) or any(c[1] and ' is None' in c[0] and 'self.' in c[0] for c in p.conds)
            if ext or failed:
                out.append((p, 'explicit'))
        elif isinstance(e, ast.Call) and isinstance(e.func, ast.Attribute) and e.func.attr == 'get' and len(e.args) == 1 and ast.unparse(e.func.value).startswith('self.') \
                and (p.mentions('addition') or 'addition' in ast.unparse(e.func.value)):
            out.append((p, 'dict.get on a map of additions'))
    return out, True


def is_lookup_function(f):
    """Does f look the received item up in a self-rooted map (in / [] / .get / try-KeyError)?"""
    for n in walk_no_nested(f):
        if isinstance(n, ast.Compare) and isinstance(n.ops[0], (ast.In, ast.NotIn)) and ast.unparse(n.comparators[0]).startswith('self.'):
            return True
        if isinstance(n, ast.Subscript) and ast.unparse(n.value).startswith('self.') and isinstance(n.ctx, ast.Load) and not isinstance(n.slice, (ast.Slice, ast.Constant)):
            return True
        if isinstance(n, ast.Call) and isinstance(n.func, ast.Attribute) and n.func.attr == 'get' and ast.unparse(n.func.value).startswith('self.'):
            return True
    return False


def check(ctx):
    model = ctx.model
    ctx.rule('C07.R1', 'unknown-extension path present on every decode entry point of ENUMERATED / CHOICE / SEQUENCE in every decoding codec')
    ctx.rule('C07.R2', 'unknown additions are skipped by the length read for them in the same iteration')
    ctx.rule('C07.R3', 'extension bit / bitmap emitted iff the type has additions (E1 conformance of the members and choice classes)')
    ctx.rule('C07.R4', 'BER decodes additions leniently, root members strictly')
    ctx.rule('C07.R5', 'PER/OER: each addition open-type length is read under its own presence-bit test, looping over all presence bits')

    # ---- R1 ENUMERATED / CHOICE
    n1 = 0
    for codec in ('ber', 'per', 'oer', 'jer', 'xer'):
        m = model.mod(RELS[codec])
        for kind in ('Enumerated', 'Choice'):
            c = m.classes.get(kind)
            if c is None:
                raise AnalysisError('%s.%s vanished' % (codec, kind))
            entries = [(n, f) for n, f in c.methods.items() if n in ENTRY and any(is_lookup_function(g) for g in class_helpers(c, f))]
            if not entries:
                raise AnalysisError('%s.%s: no decode entry point with a lookup' % (codec, kind))
            verdicts = {}
            for name, f in entries:
                # decode_root of PER Choice/Enumerated handles root indexes only: unknown root index is an error by X.691
                if name == 'decode_root' and codec == 'per':
                    ctx.instance('C07.R1', '%s.%s.%s (root index: never an addition)' % (codec, kind, name), 'n/a', nontrivial=False, node=f, file=m.rel)
                    continue
                found = []
                decided = True
                for g in class_helpers(c, f):
                    ap, dec_ = absent_paths(g)
                    found.extend(ap)
                    decided = decided and dec_
                ok = bool(found)
                verdicts[name] = ok
                n1 += 1
                if not ok and not decided:
                    ctx.instance('C07.R1', '%s.%s.%s' % (codec, kind, name), 'undecided', 'too many paths', nontrivial=False, node=f, file=m.rel)
                    continue
                ctx.instance('C07.R1', '%s.%s.%s' % (codec, kind, name), 'has unknown-item path' if ok else 'VIOLATION', found[0][1] if found else '', node=f, file=m.rel)
                if not ok:
                    others = [k for k, v in verdicts.items() if v] + [n_ for n_, g in entries if n_ != name and absent_paths(g)[0]]
                    ctx.violation('C07.R1', m.rel, f, '%s::%s.%s' % (m.rel, kind, name),
                                  '%s.%s.%s looks the received item up but has no path that reports an unknown item of an extensible type as absent (%s): '
                                  'a value produced by a newer version of the specification is rejected instead of being projected%s'
                                  % (codec, kind, name, 'None' if kind == 'Enumerated' else '(None, None)',
                                     '; sibling entry point(s) %s of the same class do have it' % sorted(set(others)) if others else ''),
                                  stmt='no unknown-item path')
    if n1 < 8:
        raise AnalysisError('C07.R1 examined only %d entry points' % n1)
    # ... and on *every* path: once the lookup of the received item failed, nothing but "the type is not extensible" may lead to another outcome than
    # the absent value (an earlier branch that returns the sentinel / raises for, say, OPTIONAL members pre-empts the projection)
    nuni = 0
    for codec in ('ber', 'per', 'oer', 'jer', 'xer'):
        m = model.mod(RELS[codec])
        for kind in ('Enumerated', 'Choice'):
            c = m.classes[kind]
            for name, f in [(n, f) for n, f in c.methods.items() if n in ENTRY]:
                for g in class_helpers(c, f):
                    ps = sem.paths(g)
                    if ps is None:
                        continue
                    for p in ps:
                        miss = [c_ for c_ in p.conds if (not c_[1]) and ' in self.' in c_[0] and ' not in ' not in c_[0]]
                        if not miss or any(c_[1] and ' in self.' in c_[0] and ' not in ' not in c_[0] for c_ in p.conds):
                            continue        # no failed lookup, or another map knew the item
                        if all('root' in c_[0].split(' in self.')[-1] for c_ in miss):
                            continue        # an index into the extension root that the root does not have is an error by X.691, never an addition
                        nuni += 1
                        ext_words = ('has_extension_marker', 'addition', 'extension')
                        excluded = any(any(w in c_[0] for w in ext_words) and ((not c_[1] and ' is None' not in c_[0]) or (c_[1] and ' is None' in c_[0])) for c_ in p.conds)
                        absent = False
                        if p.outcome[0] == 'return' and len(p.outcome) > 3 and p.outcome[3] is not None:
                            e = _first_flat(p.outcome[3])
                            absent = isinstance(e, ast.Constant) and e.value is None
                        elif p.outcome[0] == 'fall':
                            absent = True
                        continues = p.outcome[0] == 'return' and not absent and len(p.outcome) > 3 and 'TAG_MISMATCH' not in ast.unparse(p.outcome[3]) if p.outcome[0] == 'return' else False
                        if excluded or absent or continues:
                            continue
                        ctx.instance('C07.R1', '%s.%s.%s: lookup failed, extensibility not excluded -> %s' % (codec, kind, g.name, p.outcome[1] if len(p.outcome) > 1 else p.outcome[0]), 'VIOLATION', node=g, file=m.rel)
                        ctx.violation('C07.R1', m.rel, g, '%s::%s.%s' % (m.rel, kind, g.name),
                                      'a path on which the received item is unknown (%s) ends in `%s` although nothing on it says the type is not extensible (conditions: %s): an '
                                      'alternative / item added by a newer version is not reported as absent there' %
                                      (miss[0][0], (p.outcome[2] if p.outcome[0] == 'raise' else p.outcome[1])[:80], '; '.join(('' if c_[1] else 'not ') + c_[0] for c_ in p.conds)[:300]),
                                      stmt='unknown item: %s' % (p.outcome[1] if len(p.outcome) > 1 else p.outcome[0]))
    ctx.instance('C07.R1', '%d paths with a failed lookup examined for their outcome' % nuni, 'ok', nontrivial=False)
    if nuni < 4:
        raise AnalysisError('C07.R1: only %d paths with a failed lookup found' % nuni)
    # CHOICE: the unknown alternative is consumed by its length
    ber = model.mod(RELS['ber'])
    f = ber.classes['Choice'].methods['decode']
    ps = sem.paths(f) or []
    ok = any(p.outcome[0] == 'return' and p.calls('skip_tag_length_contents') and (p.mentions('has_extension_marker') or p.mentions('addition')) for p in ps)
    ctx.instance('C07.R1', 'ber.Choice.decode skips the unknown alternative (skip_tag_length_contents)', 'ok' if ok else 'VIOLATION', node=f, file=ber.rel)
    if not ok:
        ctx.violation('C07.R1', ber.rel, f, '%s::Choice.decode' % ber.rel, 'an unknown CHOICE alternative is not consumed: the components that follow are decoded from the wrong offset', stmt='skip unknown alternative')
    for codec, fn in (('per', 'decode_additions'), ('oer', 'decode')):
        m = model.mod(RELS[codec])
        f = m.classes['Choice'].methods[fn]
        ok = False
        for g_ in class_helpers(m.classes['Choice'], f):          # the entry point and the steps of the object it is split into
            for p in (sem.paths(g_) or []):
                for t, n in p.calls('skip_bits'):
                    # the skipped amount is 8 * a length determinant read on this path
                    if 'read_length_determinant(' in t:
                        ok = True
        ctx.instance('C07.R1', '%s.Choice.%s skips the unknown alternative by its open-type length' % (codec, fn), 'ok' if ok else 'VIOLATION', node=f, file=m.rel)
        if not ok:
            ctx.violation('C07.R1', m.rel, f, '%s::Choice.%s' % (m.rel, fn), 'an unknown CHOICE alternative is not skipped by the length determinant read for it', stmt='skip unknown alternative')
    # SEQUENCE/SET: with a definite length the decoder resumes at offset + length whatever it found inside
    f = ber.classes['MembersType'].methods['decode_content']
    ps = sem.paths(f, positional=True, resolver=sem.class_resolver(ber.classes['MembersType']))
    if ps is None:
        ctx.instance('C07.R1', 'ber.MembersType.decode_content returns end_offset', 'undecided', 'too many paths', nontrivial=False, node=f, file=ber.rel)
    else:
        want = sem.ctext(sem.parse_expr('ARG1 + ARG2'))
        definite = [p for p in ps if p.outcome[0] == 'return' and p.has('ARG2 is None', False) and isinstance(p.outcome[3], ast.Tuple)]
        # (when decode_members reports that the data ran out it already stopped at the end of the contents)
        ran_out = lambda p: any(c[1] and re.match(r'^self\.\w+\(.*\)\[\d\]$', c[0]) for c in p.conds)     # the flag element of a member-decoding helper's result
        ok = any(sem.ctext(p.outcome[3].elts[-1]) == want for p in definite) and all(sem.ctext(p.outcome[3].elts[-1]) == want or ran_out(p) for p in definite)
        ctx.instance('C07.R1', 'ber.MembersType.decode_content returns offset + length on the %d definite-length paths (unknown trailing TLVs skipped)' % len(definite), 'ok' if ok else 'VIOLATION', node=f, file=ber.rel)
        if not ok:
            ctx.violation('C07.R1', ber.rel, f, '%s::MembersType.decode_content' % ber.rel, 'extra components of a newer version are no longer skipped by jumping to the end of the contents', stmt='return end_offset')
    for codec in ('jer', 'xer'):
        m = model.mod(RELS[codec])
        f = m.classes['MembersType'].methods['decode']
        v = sem.View(f)
        iters = [v.text(n.iter) for n in walk_no_nested(f) if isinstance(n, (ast.For, ast.comprehension))]
        ok = any(t.startswith('self.') and 'member' in t for t in iters) and \
            not any(isinstance(n, ast.Raise) for n in walk_no_nested(f) if not any(isinstance(a, ast.ExceptHandler) for a in flow.ancestors(n)))
        ctx.instance('C07.R1', '%s.MembersType.decode iterates over known members only and never rejects extra names' % codec, 'ok' if ok else 'VIOLATION', node=f, file=m.rel)
        if not ok:
            ctx.violation('C07.R1', m.rel, f, '%s::MembersType.decode' % m.rel, 'member names unknown to this version must be ignored, not rejected', stmt='unknown members')

    # XER: the element of a component is found by its name among all children, wherever it stands: a version-2 document has elements this version does not know between the
    # ones it knows (additions are inserted at the extension marker, which need not be at the end), and a reader that pairs children with members by position stalls on them.
    xm = model.mod(RELS['xer'])
    xmt = xm.classes['MembersType']
    xf = xmt.methods['decode']
    ep = [p_ for p_ in flow.param_names(xf) if p_ != 'self'][:1]
    finds = [c_ for c_ in walk_no_nested(xf) if isinstance(c_, ast.Call) and isinstance(c_.func, ast.Attribute) and c_.func.attr in ('find', 'findall', 'iterfind')
             and isinstance(c_.func.value, ast.Name) and c_.func.value.id in ep]
    helpers = [c_ for c_ in walk_no_nested(xf) if isinstance(c_, ast.Call) and isinstance(c_.func, ast.Attribute) and isinstance(c_.func.value, ast.Name) and c_.func.value.id == 'self'
               and any(isinstance(a_, ast.Name) and a_.id in ep for a_ in c_.args)]
    verdict, why, at = ('ok', 'element.find(<member name>)', xf) if finds else ('undecided', 'no lookup by name found', xf)
    for hc in helpers:
        # every implementation of the helper in MembersType and its subclasses
        for kc in [xmt] + [k_ for k_ in xm.classes.values() if xmt in k_.mro()[1:]]:
            g_ = kc.methods.get(hc.func.attr)
            if g_ is None:
                continue
            gp = [p_ for p_ in flow.param_names(g_) if p_ != 'self']
            idx = [i_ for i_, a_ in enumerate(hc.args) if isinstance(a_, ast.Name) and a_.id in ep][0]
            el = gp[idx] if idx < len(gp) else None
            over_children = [n_ for n_ in walk_no_nested(g_) if isinstance(n_, (ast.For, ast.comprehension)) and isinstance(n_.iter, ast.Name) and n_.iter.id == el]
            positional = [n_ for n_ in walk_no_nested(g_) if isinstance(n_, ast.Call) and isinstance(n_.func, ast.Name) and n_.func.id in ('next', 'iter', 'zip', 'enumerate')
                          and any(isinstance(a_, ast.Name) and a_.id == el for a_ in ast.walk(n_))] + \
                         [n_ for n_ in walk_no_nested(g_) if isinstance(n_, ast.Subscript) and isinstance(n_.value, ast.Name) and n_.value.id == el and isinstance(n_.ctx, ast.Load)]
            if positional:
                verdict, why, at = 'VIOLATION', '%s pairs the children of the element with the members by position (`%s`)' % (Model.qual(g_), ast.unparse(positional[0])[:50]), positional[0]
            elif over_children and verdict != 'VIOLATION':
                verdict, why = 'ok', 'a name-keyed map of all children'
    ctx.instance('C07.R1', 'xer.MembersType.decode finds each component by name among all children', verdict, why if verdict != 'ok' else '', nontrivial=verdict != 'undecided', node=xf, file=xm.rel)
    if verdict == 'VIOLATION':
        ctx.violation('C07.R1', xm.rel, at, '%s::MembersType.decode' % xm.rel,
                      '%s: an element this version does not know (an extension addition of a newer version, inserted at the extension marker) that stands before a known component stops '
                      'the pairing, and every following component is decoded as absent' % why, stmt='components paired by position')

    # ---- R2 + R5
    for codec in ('per', 'oer'):
        m = model.mod(RELS[codec])
        f = m.classes['MembersType'].methods['decode_additions']
        ps = sem.paths(f)
        if ps is None:
            ctx.instance('C07.R5', '%s.MembersType.decode_additions' % codec, 'undecided', 'too many paths', nontrivial=False, node=f, file=m.rel)
            continue
        v = sem.View(f)
        # the presence bitmap: the field read whose width is used as the count of the loop over the additions
        loops_ = [n for n in walk_no_nested(f) if isinstance(n, ast.For)]
        reads = [c for c in sem.method_calls(f, 'read_non_negative_binary_integer', v) if not any(isinstance(a, (ast.For, ast.While)) for a in flow.ancestors(c))]
        pres = None
        loop = None
        for c in reads:
            if not c.args:
                continue
            w = v.text(c.args[0])
            for lp in loops_:
                if v.text(lp.iter) == 'range(%s)' % w:
                    pres, loop, width = c, lp, w
        if pres is None:
            # either the loop no longer covers all presence bits or the shape is not followed
            if reads and loops_:
                ctx.instance('C07.R5', '%s.MembersType.decode_additions loops over all presence bits' % codec, 'VIOLATION', node=loops_[0], file=m.rel)
                ctx.violation('C07.R5', m.rel, loops_[0], '%s::MembersType.decode_additions' % m.rel,
                              'the additions must be consumed in one loop over all presence bits (range(<width of the bitmap read>)); found %s' % [v.text(l.iter) for l in loops_], stmt='presence loop')
            else:
                ctx.instance('C07.R5', '%s.MembersType.decode_additions' % codec, 'undecided', 'presence bitmap read / loop not found', nontrivial=False, node=f, file=m.rel)
            continue
        ctx.instance('C07.R5', '%s.MembersType.decode_additions loops over all %s presence bits' % (codec, width), 'ok', node=loop, file=m.rel)
        pres_text = v.text(pres)
        body_paths = [p for p in sem.with_loop_bodies(ps) if p.outcome[0] in ('fall', 'continue', 'break', 'return', 'raise')]
        lens = [c for c in sem.method_calls(f, 'read_length_determinant', v) if any(a is loop for a in flow.ancestors(c))]
        if not lens:
            ctx.instance('C07.R5', '%s.MembersType.decode_additions: open-type length reads' % codec, 'VIOLATION', node=loop, file=m.rel)
            ctx.violation('C07.R5', m.rel, loop, '%s::MembersType.decode_additions' % m.rel, 'no open-type length determinant is read inside the loop over the presence bits', stmt='length read not under presence test')
        outside = [c for c in sem.method_calls(f, 'read_length_determinant', v) if c not in lens and (c.lineno, c.col_offset) > (pres.lineno, pres.col_offset)]
        for c in lens + outside:
            st_ = Model.enclosing_stmt(c)
            reach = sem.reaching(ps, st_)
            ok = bool(reach) and c in lens
            for p, conds in reach:
                # a test of one bit of the bitmap:  pres & (1 << k)  /  (pres >> k) & 1  /  (pres >> k) % 2  (a guard clause `if not bit: continue` has the other polarity)
                def bit_test(t):
                    return pres_text in t and (' & ' in t or ' % 2' in t or '% 2)' in t) and ('<<' in t or '>>' in t or ' & ' in t)
                if not any(bit_test(t) for t, pol in ((x[0], x[1]) for x in conds)):
                    ok = False
            ctx.instance('C07.R5', '%s.MembersType.decode_additions: open-type length read under the presence-bit test' % codec, 'ok' if ok else 'VIOLATION', node=c, file=m.rel)
            if not ok:
                ctx.violation('C07.R5', m.rel, c, '%s::MembersType.decode_additions' % m.rel,
                              'an open-type length determinant is read without testing the presence bit of that addition: the number of open types consumed no longer equals '
                              'the number of presence bits set, and everything after the SEQUENCE is decoded from the wrong position', stmt='length read not under presence test')
        # R2: on the path for an addition this version does not know (no member decode) the skip is 8 * the length read in that iteration
        ok = False
        seen_skip = False
        for p in sem.with_loop_bodies(ps):
            sk = p.calls('skip_bits')
            if not sk or p.calls('decode'):
                continue
            if not p.mentions('len(self.additions)'):
                continue
            for t, n in sk:
                seen_skip = True
                arg = None
                for ev in p.events:
                    if ev[0].endswith('call') and ev[2] is n:
                        arg = ev[3].args[0] if ev[3].args else None
                if arg is None:
                    continue
                d = sem.lin(arg)
                if len(d) == 1 and list(d.values()) == [8] and 'read_length_determinant(' in list(d.keys())[0]:
                    ok = True
        ctx.instance('C07.R2', '%s.MembersType.decode_additions skips an unknown addition by 8 * its own length' % codec, 'ok' if ok else 'VIOLATION', node=f, file=m.rel)
        if not ok:
            ctx.violation('C07.R2', m.rel, f, '%s::MembersType.decode_additions' % m.rel,
                          'in the branch for additions unknown to this version (i >= len(self.additions)) the decoder must skip exactly 8 * the length determinant read for that addition', stmt='skip by own length')

    # ---- R1 (compile time): the base Compiler.compile_members reports `extensible` once a "..." was seen.  The flag it returns may
    #      only ever be *set* when the marker is met: toggling it (as the binary codecs do for their in/out-of-additions state) makes
    #      `T ::= CHOICE { a .., ..., b .., ... }` non-extensible for jer/xer and the constraints checker.
    basef = model.func('asn1tools/codecs/compiler.py', 'Compiler.compile_members')
    bps = sem.paths(basef)
    if bps is None:
        ctx.instance('C07.R1', 'base compile_members extensibility flag', 'undecided', 'too many paths', nontrivial=False, node=basef, file='asn1tools/codecs/compiler.py')
    else:
        ok = None
        for p in sem.with_loop_bodies(bps):
            if not any('EXTENSION_MARKER' in c_[0] and ' == ' in c_[0] and c_[1] for c_ in p.conds):
                continue
            for name, val in p.env.items():
                if not isinstance(val, ast.AST):
                    continue
                t_ = sem.ctext(val)
                if isinstance(val, ast.Constant) and val.value is True:
                    ok = True if ok is None else ok
                elif re.match(r'^not \(?%s@\d+\)?$' % re.escape(name), t_):
                    ok = False
        # the flag that is returned must be one that is set there
        ctx.instance('C07.R1', 'base Compiler.compile_members: the extensibility flag is set (not toggled) at "..."', 'ok' if ok else ('undecided' if ok is None else 'VIOLATION'),
                     nontrivial=ok is not None, node=basef, file='asn1tools/codecs/compiler.py')
        if ok is False:
            ctx.violation('C07.R1', 'asn1tools/codecs/compiler.py', basef, Model.qual(basef),
                          'the flag returned as "has extension marker" is toggled at every "...": a type whose additions are closed by a second marker is compiled as not extensible, and '
                          'its decoder rejects the alternatives / items a newer version added', stmt='extensibility flag toggled')

    # ---- R3
    n3 = 0
    for codec in ('per', 'uper', 'oer'):
        m = model.mod(RELS[codec])
        for cn in ('MembersType', 'Choice', 'Enumerated', 'Sequence', 'Set'):
            c = m.classes.get(cn)
            if c is None or c.find_method('encode') is None or c.find_method('decode') is None:
                continue
            if len(c.find_method('encode')[1].args.args) != 3:
                continue
            r = protocol.analyse_pair(c, model, cap=256)
            n3 += 1
            ok = r['status'] != 'MISMATCH'
            ctx.instance('C07.R3', '%s.%s extension bit/bitmap conformance' % (codec, cn), 'ok' if ok else 'VIOLATION', node=c.node, file=m.rel)
            if not ok:
                asg, e, D = r['problems'][0]
                ctx.violation('C07.R3', m.rel, c.find_method('encode')[1], '%s::%s.encode <-> decode' % (m.rel, cn),
                              'encoder and decoder disagree on the extension bit / bitmap under %s: encoder emits %s' % (asg, protocol.show_path(e)), stmt='extension framing differs')
    if n3 < 8:
        raise AnalysisError('C07.R3 analysed only %d classes' % n3)

    # ---- R6: the unknown item is framed like the known one.  In the token paths (E1, sa/protocol.py) of every decoder that skips an unknown alternative / addition by
    #      its open-type length (OPENSKIP), what is consumed *before* the open type on the unknown path equals what is consumed before it on the known path (OPEN)
    #      in the same context and under the same configuration: the encoder of the newer version wrote one framing, whichever alternative it chose.
    ctx.rule('C07.R6', 'token paths: the unknown alternative / addition is reached through the same framing (alignment, index, length) as the known one')


    def prefixes(paths, acc):
        """acc: list of (context, kind, prefix tokens) for OPEN / OPENSKIP occurrences, recursively through loop bodies"""
        for p in paths:
            for k, t in enumerate(p):
                if t and t[0] in ('OPEN', 'OPENSKIP'):
                    acc.append((t[0], tuple(protocol.strip_uid(x) for x in p[:k])))
                if t and t[0] in ('LOOP', 'CHUNKS', 'WHILE') and len(t) > 1:
                    sub = []
                    prefixes(t[1], sub)
                    pre = tuple(protocol.strip_uid(x) for x in p[:k])
                    acc.extend((kind, pre + ('LOOP',) + q) for kind, q in sub)
    n6 = 0
    for codec, cn, meth in (('per', 'Choice', 'decode_additions'), ('uper', 'Choice', 'decode_additions'), ('per', 'MembersType', 'decode_additions'),
                            ('uper', 'MembersType', 'decode_additions'), ('oer', 'Choice', 'decode'), ('oer', 'MembersType', 'decode_additions')):
        m6 = model.mod(RELS.get(codec, 'asn1tools/codecs/%s.py' % codec))
        c6 = m6.classes.get(cn)
        if c6 is None:
            # uper inherits the PER class when it does not define its own
            c6 = model.mod(RELS['per']).classes.get(cn) if codec == 'uper' else None
            if c6 is None:
                raise AnalysisError('%s.%s vanished' % (codec, cn))
            if codec == 'uper':
                continue       # same object as per: decided there
        r6 = c6.find_method(meth)
        if r6 is None:
            raise AnalysisError('%s.%s.%s vanished' % (codec, cn, meth))
        try:
            atoms6, out6 = protocol.token_paths(c6, model, meth, 'dec')
        except (AnalysisError, protocol.Abort) as e:
            ctx.instance('C07.R6', '%s.%s.%s' % (codec, cn, meth), 'undecided', str(e)[:120], nontrivial=False, node=r6[1], file=m6.rel)
            continue
        bad6 = None
        seen_skip = False
        for asg, P in out6.items():
            acc = []
            prefixes(P, acc)
            known = {q for kind, q in acc if kind == 'OPEN'}
            for kind, q in acc:
                if kind != 'OPENSKIP':
                    continue
                seen_skip = True
                if known and q not in known and bad6 is None:
                    bad6 = (dict(asg), q, sorted(known))
        n6 += 1
        verdict = 'VIOLATION' if bad6 else ('same framing' if seen_skip else 'undecided')
        ctx.instance('C07.R6', '%s.%s.%s' % (codec, cn, meth), verdict, '' if seen_skip else 'no skip-by-length path found in the token paths', nontrivial=seen_skip, node=r6[1], file=m6.rel)
        if bad6:
            ctx.violation('C07.R6', m6.rel, r6[1], '%s::%s.%s' % (m6.rel, cn, meth),
                          'under %s the unknown item is skipped after consuming [%s] while a known one is decoded after [%s]: the newer encoder wrote the second framing '
                          '(alignment before the open-type length in aligned PER), so the skip starts at the wrong bit and everything that follows is misread'
                          % (bad6[0] or 'every configuration', ' '.join(protocol.show_path((t,)) if isinstance(t, tuple) else t for t in bad6[1]) or 'nothing',
                             ' | '.join(' '.join(protocol.show_path((t,)) if isinstance(t, tuple) else t for t in k) for k in bad6[2])), stmt='framing of the unknown item')
    if n6 < 4:
        raise AnalysisError('C07.R6 examined only %d decoders' % n6)

    # ---- R4
    f = ber.classes['MembersType'].methods['decode_content']
    v = sem.View(f)
    calls = [c for c in sem.method_calls(f, 'decode_members', v) if c.args]
    root = [c for c in calls if 'self.root_members' in v.text(c.args[0])]
    adds = [c for c in calls if 'self.additions' in v.text(c.args[0])]
    ok = len(root) == 1 and len(adds) == 1 and any(k.arg == 'ignore_missing' and isinstance(k.value, ast.Constant) and k.value.value is True for k in adds[0].keywords) \
        and not any(k.arg == 'ignore_missing' for k in root[0].keywords)
    ctx.instance('C07.R4', 'ber.MembersType.decode_content: additions ignore_missing=True, root strict', 'ok' if ok else 'VIOLATION', node=f, file=ber.rel)
    if not ok:
        ctx.violation('C07.R4', ber.rel, f, '%s::MembersType.decode_content' % ber.rel,
                      'additions must be decoded with ignore_missing=True (an older encoding lacks them) and root members without it', stmt='lenient additions')
    # the flag the additions call sets is followed into the method it is passed to and the helpers that receive it
    mcls = ber.classes['MembersType']
    fam = []
    if adds:
        flag_kw = [k.arg for k in adds[0].keywords if isinstance(k.value, ast.Constant) and k.value.value is True]
        r0 = mcls.find_method(adds[0].func.attr) if isinstance(adds[0].func, ast.Attribute) else None
        if r0 and flag_kw:
            work = [(r0[1], flag_kw[0])]
            while work and len(fam) < 8:
                g, fl = work.pop()
                if any(g is x for x, _ in fam):
                    continue
                fam.append((g, fl))
                for c_ in walk_no_nested(g):
                    if isinstance(c_, ast.Call) and isinstance(c_.func, ast.Attribute) and isinstance(c_.func.value, ast.Name) and c_.func.value.id == 'self':
                        r_ = mcls.find_method(c_.func.attr)
                        if r_ is None:
                            continue
                        gp = [a.arg for a in r_[1].args.args][1:]
                        for pn, a_ in zip(gp, c_.args):
                            if isinstance(a_, ast.Name) and a_.id == fl:
                                work.append((r_[1], pn))
                        for k_ in c_.keywords:
                            if isinstance(k_.value, ast.Name) and k_.value.id == fl and k_.arg:
                                work.append((r_[1], k_.arg))
    dm = fam[0][0] if fam else ber.classes['MembersType'].methods['decode_members']
    leaves = raises = False
    for g, fl in fam:
        dps = sem.with_loop_bodies(sem.paths(g) or [])
        leaves = leaves or any(p.outcome[0] in ('break', 'return') and p.has(fl, True) for p in dps)
        raises = raises or any(p.outcome[0] == 'raise' and p.has(fl, True) and p.outcome[1] not in ('reraise', 'e') for p in dps)
    ok = leaves and not raises
    ctx.instance('C07.R4', 'ber.MembersType.%s: a missing addition ends the scan without error (%d functions receive the flag)' % (dm.name, len(fam)),
                 'ok' if ok else 'VIOLATION', node=dm, file=ber.rel)
    if not ok:
        ctx.violation('C07.R4', ber.rel, dm, '%s::MembersType.decode_members' % ber.rel, 'with ignore_missing a missing mandatory addition must not raise', stmt='ignore_missing handling')


    # ---- R7: AUTOMATIC TAGS and a second extension marker.  A version-2 type inserts its additions between the two markers; the components after the second marker
    #      belong to the extension root and must keep their tags, or BER / DER of the two versions do not understand each other.  The tagging pass is evaluated
    #      (sa/evalexpr.py, on descriptor dictionaries built here) for a version-1 and a version-2 member list: every root component has the same number in both.
    ctx.rule('C07.R7', 'automatic tag numbers of the root components do not depend on the extension additions present (tagging pass evaluated on version-1 / version-2 member lists)')
    from .. import evalexpr as _ev7
    tf = model.mod('asn1tools/codecs/compiler.py').classes['Compiler'].find_method('pre_process_tags_type_members')
    if tf is None:
        ctx.instance('C07.R7', 'Compiler.pre_process_tags_type_members', 'undecided', 'the tagging pass was not found under that name', nontrivial=False)
    else:
        tf = tf[1]
        tp = [p_ for p_ in flow.param_names(tf) if p_ != 'self']
        r_ = tf._mod.resolve_name('EXTENSION_MARKER')
        marker = None
        if isinstance(r_, tuple) and r_[0] == 'const' and isinstance(r_[1], ast.Constant):
            marker = r_[1].value

        def numbers(members):
            td = {'type': 'SEQUENCE', 'members': members}
            _ev7.run_function(tf, {tp[0]: td, tp[1]: 'AUTOMATIC', tp[2]: 'M'}, skip_calls=True)
            out = {}

            def walk(ms):
                for x_ in ms:
                    if isinstance(x_, list):
                        walk(x_)
                    elif isinstance(x_, dict):
                        out[x_['name']] = (x_.get('tag') or {}).get('number')
            walk(td['members'])
            return out

        def mk(*names):
            return [marker if n_ == '...' else ([{'name': g_, 'type': 'INTEGER'} for g_ in n_] if isinstance(n_, tuple) else {'name': n_, 'type': 'INTEGER'}) for n_ in names]
        cases7 = [(mk('a', '...', '...', 'z'), mk('a', '...', 'q', '...', 'z'), ('a', 'z')),
                  (mk('a', 'b', '...', '...', 'y', 'z'), mk('a', 'b', '...', 'p', ('g1', 'g2'), '...', 'y', 'z'), ('a', 'b', 'y', 'z')),
                  (mk('a', '...'), mk('a', '...', 'p', 'q'), ('a',)),
                  (mk('a', '...', 'p'), mk('a', '...', 'p', ('g1',), 'q'), ('a', 'p'))]
        bad7 = None
        n7ok = 0
        und7 = ''
        try:
            for v1_, v2_, roots_ in cases7:
                n1_, n2_ = numbers(v1_), numbers(v2_)
                for nm_ in roots_:
                    if n1_.get(nm_) != n2_.get(nm_) or n1_.get(nm_) is None:
                        bad7 = bad7 or (nm_, n1_.get(nm_), n2_.get(nm_), [x_['name'] if isinstance(x_, dict) else ('[[..]]' if isinstance(x_, list) else '...') for x_ in v2_])
                    else:
                        n7ok += 1
        except (_ev7.Unsupported, _ev7.Raised, _ev7.PyRaise, KeyError, TypeError) as e_:
            und7 = str(e_)[:100]
        verdict7 = 'undecided' if und7 else ('VIOLATION' if bad7 else 'ok')
        ctx.instance('C07.R7', '%s evaluated on %d version pairs (%d root components compared)' % (Model.qual(tf), len(cases7), n7ok + (1 if bad7 else 0)), verdict7, und7,
                     nontrivial=not und7, node=tf, file=tf._mod.rel)
        if bad7 and not und7:
            ctx.violation('C07.R7', tf._mod.rel, tf, Model.qual(tf),
                          'with AUTOMATIC TAGS the root component `%s` is numbered [%s] in version 1 and [%s] in version 2 { %s }: the numbers are given in textual order, so additions '
                          'inserted before the second extension marker shift the tags of the components after it, and BER / DER encodings of one version are rejected by the other '
                          '(DecodeTagError) -- X.680 25.7 numbers the extension root first' % (bad7[0], bad7[1], bad7[2], ', '.join(bad7[3])), stmt='automatic tags in textual order')

    # ---- R8: the length that precedes an extension addition (an open type) is how an older version skips an addition it does not know: it must be the number of octets the
    #      addition's encoder has written.  An encoder that moves written bits out of its accumulator (a list of chunks, a second counter) reports them in number_of_bytes(),
    #      or the length is too small as soon as an addition is larger than one chunk.
    ctx.rule('C07.R8', 'Encoder.number_of_bytes() (the open-type length of an addition) accounts for every place the encoder keeps written bits in')
    n8 = 0
    for codec8 in ('per', 'oer'):
        ecls = model.mod(RELS[codec8]).classes.get('Encoder')
        nb = ecls.methods.get('number_of_bytes') if ecls else None
        if nb is None:
            continue
        n8 += 1
        # where bits go when the accumulator is emptied while appending: self.<acc> = 0 next to self.<store>.append(..) / self.<counter> += ..
        spill = set()
        for g_ in ecls.methods.values():
            if g_.name in ('__init__', 'reset'):
                continue
            zeroed = [a_ for a_ in walk_no_nested(g_) if isinstance(a_, ast.Assign) and isinstance(a_.value, ast.Constant) and a_.value.value == 0
                      and any(isinstance(t_, ast.Attribute) and isinstance(t_.value, ast.Name) and t_.value.id == 'self' and t_.attr == 'number_of_bits' for t_ in a_.targets)]
            if not zeroed:
                continue
            for x_ in walk_no_nested(g_):
                if isinstance(x_, ast.Call) and isinstance(x_.func, ast.Attribute) and x_.func.attr in ('append', 'extend') and isinstance(x_.func.value, ast.Attribute) \
                        and isinstance(x_.func.value.value, ast.Name) and x_.func.value.value.id == 'self':
                    spill.add(x_.func.value.attr)
                if isinstance(x_, ast.AugAssign) and isinstance(x_.op, ast.Add) and isinstance(x_.target, ast.Attribute) and isinstance(x_.target.value, ast.Name) \
                        and x_.target.value.id == 'self' and x_.target.attr != 'number_of_bits':
                    spill.add(x_.target.attr)
        mentioned = set()
        todo8 = [nb]
        for g8 in todo8:            # number_of_bytes and the methods of the encoder it is computed through (total_number_of_bits())
            for y_ in walk_no_nested(g8):
                if isinstance(y_, ast.Attribute) and isinstance(y_.value, ast.Name) and y_.value.id == 'self':
                    mentioned.add(y_.attr)
                    r8 = ecls.find_method(y_.attr)
                    if r8 is not None and r8[1] not in todo8 and len(todo8) < 6:
                        todo8.append(r8[1])
        ok8 = not spill or bool(spill & mentioned)
        ctx.instance('C07.R8', '%s.Encoder.number_of_bytes reads %s; written bits are also kept in %s' % (codec8, sorted(mentioned), sorted(spill) or 'nothing else'),
                     'ok' if ok8 else 'VIOLATION', node=nb, file=RELS[codec8])
        if not ok8:
            ctx.violation('C07.R8', RELS[codec8], nb, Model.qual(nb),
                          'the encoder moves written bits out of its accumulator into %s, and number_of_bytes() counts the accumulator only: the open-type length written before an extension '
                          'addition larger than one chunk is too small, so a version that does not know the addition skips too little and decodes the following components from the '
                          'middle of it' % sorted(spill), stmt='open-type length ignores spilled bits')
    if n8 < 2:
        raise AnalysisError('C07.R8 found only %d Encoder.number_of_bytes methods' % n8)

PER = RELS['per']
OER = RELS['oer']
XER = RELS['xer']
JER = RELS['jer']
BER = RELS['ber']
MUTANTS = [
    dict(name='jer.Choice.decode loses its extensible branch', file=JER, quick=True,
         old="""        if name in self.name_to_member:
            member = self.name_to_member[name]
        elif self.has_extension_marker:
            return (None, None)
        else:""", new="""        if name in self.name_to_member:
            member = self.name_to_member[name]
        else:""", expect='C07.R1'),
    dict(name='oer skip uses 8 * length + 8', file=OER, quick=True,
         old="                    decoder.skip_bits(8 * member_length)", new="                    decoder.skip_bits(8 * member_length + 8)", expect='C07.R2'),
    dict(name='ber additions decoded strictly', file=BER, quick=True,
         old="""            offset, out_of_data = self.decode_members(flatten(self.additions), data, values, offset, end_offset,
                                                      ignore_missing=True)""",
         new="""            offset, out_of_data = self.decode_members(flatten(self.additions), data, values, offset, end_offset)""", expect='C07.R4'),
    dict(name='xer.Enumerated.decode_of strict again', file=XER,
         old="""        value = element.tag

        if value in self.value_to_data:
            return self.value_to_data[value]
        elif self.has_extension_marker:
            return None
        else:
            raise DecodeError(
                "Expected enumeration value {}, but got '{}'.".format(
                    self.format_values(), value))


class Sequence(MembersType):""",
         new="""        value = element.tag

        if value in self.value_to_data:
            return self.value_to_data[value]
        else:
            raise DecodeError(
                "Expected enumeration value {}, but got '{}'.".format(
                    self.format_values(), value))


class Sequence(MembersType):""", expect='C07.R1'),
    dict(name='per unknown additions skipped in a second loop by bit_length', file=PER,
         old="""        for i in range(length):
            if presence_bits & (1 << (length - i - 1)):
                # Open type decoding.
                open_type_length = decoder.read_length_determinant()
                offset = decoder.number_of_bits

                if i < len(self.additions):""",
         new="""        for _ in range((presence_bits >> len(self.additions)).bit_length()):
            decoder.skip_bits(8 * decoder.read_length_determinant())

        for i in range(length):
            if presence_bits & (1 << (length - i - 1)):
                # Open type decoding.
                open_type_length = decoder.read_length_determinant()
                offset = decoder.number_of_bits

                if i < len(self.additions):""", expect='C07.R5'),
    dict(name='ber unknown choice not skipped', file=BER,
         old="""        elif self.has_extension_marker:
            offset = skip_tag_length_contents(data, offset)

            return (None, None), offset""", new="""        elif self.has_extension_marker:
            return (None, None), offset""", expect='C07.R1'),
]
REFACTORS = []

MUTANTS.append(dict(name='BER CHOICE: an OPTIONAL member with an unknown tag reports a tag mismatch before the extensibility test', file='asn1tools/codecs/ber.py',
                    old="""            member = self.tag_to_member[tag]
        elif self.has_extension_marker:""", new="""            member = self.tag_to_member[tag]
        elif self.optional or self.has_default():
            return TAG_MISMATCH, offset
        elif self.has_extension_marker:""", expect='C07.R1'))

MUTANTS.append(dict(name='aligned PER CHOICE: an unknown extension alternative is skipped without the alignment before the open-type length', file='asn1tools/codecs/per.py',
                    old="""        if index in self.additions_index_to_member:
            addition = self.additions_index_to_member[index]
        else:
            addition = None

        # Open type decoding.
        decoder.align()""", new="""        if index in self.additions_index_to_member:
            addition = self.additions_index_to_member[index]
        else:
            decoder.skip_bits(8 * decoder.read_length_determinant())

            return (None, None)

        # Open type decoding.
        decoder.align()""", expect='C07.R6'))
