"""C01 -- binary codecs round-trip (structural necessary conditions; DESIGN.md section 4 C01)."""
import ast
import re

from ..model import AnalysisError, Model, walk_no_nested, norm_stmt
from .. import flow, protocol, dispatch, replay, siblings, defaults, sem, deleg

EXPLANATION = (
    'Decided: (R1) for every PER/UPER/OER type class and every assignment of its configuration conditions, each token path the encoder can '
    'emit over the Encoder vocabulary (bits, fields with configuration widths, length determinants, alignment, child calls, open types, loops) '
    'has a decoder path of the same shape and widths: Paths(encode) <= Paths(decode) (E1 conformance); (R2) every class reachable from a binary '
    'codec dispatch table resolves encode/decode (BER/DER: encode_content/decode_content or the primitive/constructed pair) to a real '
    'implementation; (R3) DEFAULT elision and restoration are paired in ber/per/oer members encoders and all members decoders, and a class that '
    'redirects set_default redirects get/has/is_default too; (R4) wire-derived widths agree with what the encoder wrote, by bounded evaluation '
    'of the extracted arithmetic (E1b: OER extension bitmap for 1..64 additions, OER BIT STRING for 0..64 bits); (R5) the extension-marker state '
    'machine of the three compile_members siblings agrees; (R6) Encoder.number_of_bits is never zeroed after bits were appended (it is read as '
    '"addition present"); (R7) member presence is membership in the value, not its truthiness.  Not decided: equality of decoded and encoded '
    'values (content arithmetic), BER/DER content symmetry, canonical re-encoding.')
PER = 'asn1tools/codecs/per.py'
UPER = 'asn1tools/codecs/uper.py'
OER = 'asn1tools/codecs/oer.py'
BER = 'asn1tools/codecs/ber.py'
DER = 'asn1tools/codecs/der.py'


def is_abstract(f):
    body = [s for s in f.body if not (isinstance(s, ast.Expr) and isinstance(s.value, ast.Constant))]
    return len(body) == 1 and isinstance(body[0], ast.Raise) and 'NotImplementedError' in ast.unparse(body[0])


# method-name based (the receiver may be called member / optional / addition / ...)
NOT_IS_DEFAULT = re.compile(r'not\s+[\w\.\[\]]+\.is_default\(')
IS_DEFAULT = re.compile(r'[\w\.\[\]]+\.is_default\(')
DEFAULT_IS_NONE = re.compile(r'[\w\.\[\]]+\.default is None')


def check(ctx):
    model = ctx.model
    ctx.rule('C01.R1', 'E1 stream-protocol conformance: Paths(encode) <= Paths(decode) under every configuration assignment')
    ctx.rule('C01.R2', 'dispatch-table classes resolve encode/decode (and BER content methods) to real implementations')
    ctx.rule('C01.R3', 'DEFAULT elision (encoder) and restoration (decoder) are paired; redirected defaults are redirected consistently')
    ctx.rule('C01.R4', 'E1b: widths the decoder derives from the wire equal what the encoder wrote (bounded evaluation)')
    ctx.rule('C01.R5', 'compile_members siblings agree on the extension-marker state machine')
    ctx.rule('C01.R6', 'Encoder.number_of_bits is not zeroed after an append (observed as emptiness by the members encoders)')
    ctx.rule('C01.R7', 'member presence is `name in data`, never the value')
    ctx.rule('C01.R8', 'an addition encoder is reset (its content discarded) only when just the presence preamble was written')

    # ---- R1
    cap = None if ctx.tier == 'thorough' else 256
    n_pairs = 0
    reported = set()
    total_asg = 0
    total_paths = 0
    for rel in (PER, UPER, OER):
        for c in protocol.stream_classes(model, rel):
            n_pairs += 1
            r = protocol.analyse_pair(c, model, cap=cap)
            total_asg += r.get('assignments', 0)
            total_paths += r.get('encoder_paths', 0)
            enc = c.find_method('encode')
            dec = c.find_method('decode')
            where = '%s.encode(%s) / %s.decode(%s)' % (enc[0].qname, enc[1].lineno, dec[0].qname, dec[1].lineno)
            if r['status'] == 'OK':
                ctx.instance('C01.R1', '%s [%d config atoms, %d assignments, %d encoder paths]' % (c.qname, len(r['atoms']), r['assignments'], r.get('encoder_paths', 0)),
                             'conformant', '; '.join(sorted(r['notes'])), nontrivial=r.get('encoder_paths', 0) > 0, node=enc[1], file=enc[0].mod.rel)
                continue
            if r['status'].startswith(('ABORT', 'TOO-MANY')):
                # fall back: recorded, never an alarm
                ctx.instance('C01.R1', c.qname, 'not-analysed', r['status'], nontrivial=False, node=enc[1], file=enc[0].mod.rel)
                ctx.note('E1 downgrade for %s: %s' % (c.qname, r['status']))
                continue
            key = (enc[0].qname, dec[0].qname)
            ctx.instance('C01.R1', c.qname, 'VIOLATION', node=enc[1], file=enc[0].mod.rel)
            if key in reported:
                continue
            reported.add(key)
            asg, e, D = r['problems'][0]
            near = sorted(D, key=lambda d: abs(len(d) - len(e)))[:3]
            ctx.violation('C01.R1', enc[0].mod.rel, enc[1], '%s::%s.encode <-> %s.decode' % (enc[0].mod.rel, enc[0].name, dec[0].name),
                          'under configuration {%s} the encoder of %s can emit  %s  but no decoder path parses that shape; closest decoder paths: %s'
                          % (', '.join('%s=%s' % kv for kv in sorted(asg.items())), c.qname, protocol.show_path(e),
                             ' || '.join(protocol.show_path(d) for d in near)),
                          stmt='encode/decode token paths differ', extra={'class': c.qname, 'mismatches': len(r['problems'])})
    ctx.extra['e1_pairs'] = n_pairs
    ctx.extra['e1_config_assignments'] = total_asg
    ctx.extra['e1_encoder_paths'] = total_paths
    if n_pairs < 85:
        raise AnalysisError('C01.R1 analysed only %d class pairs (floor 85)' % n_pairs)

    # ---- R2
    n2 = 0
    for codec in ('ber', 'der', 'per', 'uper', 'oer', 'jer', 'xer'):
        tab = dispatch.table(model, codec)
        for name, cell in sorted(tab.cells.items()):
            if cell.cls is None or name in ('ANY', 'ANY DEFINED BY', 'OpenType', 'EXTERNAL'):
                continue      # outside the quantifier of C01 (ANY / EXTERNAL / information objects)
            n2 += 1
            c = cell.cls
            bad = []
            for mn in ('encode', 'decode'):
                r = c.find_method(mn)
                if r is None or is_abstract(r[1]):
                    bad.append(mn)
            if codec in ('ber', 'der'):
                names = {x.name for x in c.mro()}
                if 'StandardEncodeMixin' in names:
                    r = c.find_method('encode_content')
                    if r is None or is_abstract(r[1]):
                        bad.append('encode_content')
                if 'StandardDecodeMixin' in names and 'PrimitiveOrConstructedType' not in names:
                    r = c.find_method('decode_content')
                    if r is None or is_abstract(r[1]):
                        bad.append('decode_content')
                if 'PrimitiveOrConstructedType' in names:
                    for mn in ('decode_primitive_contents', 'decode_constructed_segments'):
                        r = c.find_method(mn)
                        if r is None or is_abstract(r[1]):
                            bad.append(mn)
            ctx.instance('C01.R2', "%s['%s'] -> %s" % (codec, name, c.qname), 'ok' if not bad else 'VIOLATION', node=cell.ctor, file=tab.rel)
            if bad:
                ctx.violation('C01.R2', tab.rel, cell.ctor, "%s::Compiler dispatch['%s'] -> %s" % (tab.rel, name, c.qname),
                              'class %s has no real implementation of %s: values of ASN.1 type %s cannot be %s' % (c.qname, ', '.join(bad), name, 'round-tripped'),
                              stmt='abstract ' + ','.join(bad))
    if n2 < 150:
        raise AnalysisError('C01.R2 saw only %d dispatch cells' % n2)

    # ---- R3 encoder side: decided on the path summaries of the SEQUENCE/SET class family, wherever the code lives
    n_enc = n_dec = n_bit = 0
    fams = {}
    for codec in ('ber', 'der', 'per', 'uper', 'oer', 'jer', 'xer'):
        tab = dispatch.table(model, codec)
        for tn in ('SEQUENCE', 'SET'):
            cell = tab.cells.get(tn)
            if cell is None or cell.cls is None:
                raise AnalysisError('%s dispatch has no class for %s' % (codec, tn))
            fams.setdefault(cell.cls.qname, (codec, cell.cls))
    for qn, (codec, cls) in sorted(fams.items()):
        rel = cls.mod.rel
        if codec in ('ber', 'der', 'per', 'uper', 'oer'):
            es = defaults.EncodeSites(cls)
            for g, why in es.undecided:
                ctx.instance('C01.R3', '%s member encode sites of %s' % (qn, Model.qual(g)), 'undecided', why, node=g, file=g._mod.rel)
            for f, node, recv, why, how, conds in es.sites:
                n_enc += 1
                txt = ' && '.join(('' if c[1] else 'not ') + c[0] for c in conds)
                ctx.instance('C01.R3', '%s: %s.encode (%s) [%s]' % (Model.qual(f), recv, how, txt[:90]), ('elides default: ' + why) if why else 'VIOLATION',
                             node=node, file=f._mod.rel)
                if why is None:
                    ctx.violation('C01.R3', f._mod.rel, node, Model.qual(f),
                                  '%s.encode(...) is reached on a path (%s) that does not exclude `%s has a DEFAULT and the value equals it`: a component equal to its '
                                  'DEFAULT is encoded although the decoder/canonical form expects it to be absent (or the presence bit says absent)'
                                  % (recv, txt or 'unconditional', recv), stmt=norm_stmt(Model.enclosing_stmt(node)))
        if codec in ('per', 'uper', 'oer'):
            vals = defaults.presence_bit_values(cls)
            hit = [(f, e) for f, e in vals if NOT_IS_DEFAULT.search(ast.unparse(e))]
            n_bit += 1
            ctx.instance('C01.R3', '%s presence bit of a DEFAULT member = not is_default(value) (%d bit expressions)' % (qn, len(vals)),
                         'ok' if hit else 'VIOLATION', node=cls.node, file=rel)
            if not hit:
                ctx.violation('C01.R3', rel, cls.node, qn, 'no presence bit written by this class family is `not is_default(value)`: the bitmap of a DEFAULT '
                              'member and the encoded members disagree', stmt='default presence bit')
        # decoder side
        rs = defaults.restoration_sites(cls)
        n_dec += 1
        good = [r for r in rs if r[3]]
        ctx.instance('C01.R3', '%s restores the default of an absent member (%d stores of a default)' % (qn, len(rs)), 'ok' if good else 'VIOLATION',
                     node=cls.node, file=rel)
        if not good:
            ctx.violation('C01.R3', rel, (rs[0][1] if rs else cls.node), qn, 'an absent DEFAULT member is no longer decoded as its default value (under has_default())',
                          stmt='default restoration')
    if n_enc < 4 or n_dec < 4 or n_bit < 2:
        raise AnalysisError('C01.R3 found too few sites (%d member encodes, %d decoders, %d bitmaps)' % (n_enc, n_dec, n_bit))
    # redirected defaults
    for m in model.modules.values():
        if not m.rel.startswith('asn1tools/codecs/'):
            continue
        for c in m.classes.values():
            sd = c.methods.get('set_default')
            if sd is None:
                continue
            src = ast.unparse(sd)
            if 'self.default =' in src or all(isinstance(s, ast.Pass) or (isinstance(s, ast.Expr) and isinstance(s.value, ast.Constant)) for s in sd.body):      # a no-op (pass / docstring only) keeps nothing anywhere
                continue
            missing = [mn for mn in ('get_default', 'has_default', 'is_default') if mn not in c.methods]
            ctx.instance('C01.R3', '%s redirects set_default and %s' % (c.qname, 'get/has/is_default' if not missing else 'NOT ' + ','.join(missing)),
                         'ok' if not missing else 'VIOLATION', node=sd, file=m.rel)
            if missing:
                ctx.violation('C01.R3', m.rel, sd, c.qname + '.set_default', 'set_default keeps the value elsewhere than self.default but %s still read self.default' % ', '.join(missing), stmt='redirected default')

    # ---- R4
    c = model.cls(OER, 'MembersType')
    enc, dec = c.methods.get('encode_additions'), c.methods.get('decode_additions')
    if enc is None or dec is None:
        raise AnalysisError('oer.MembersType.encode_additions/decode_additions vanished')
    bad = None
    checked = undecided = 0
    for n in range(1, 65):
        verdict, detail, _hdr = replay.bitmap_replay(enc, dec, n)
        if verdict == 'bad':
            bad = (n, detail)
            break
        if verdict == 'ok':
            checked += 1
        else:
            undecided += 1
            if undecided == 1:
                ctx.note('C01.R4 undecided for %d additions: %s' % (n, detail))
    ctx.instance('C01.R4', 'oer.MembersType extension bitmap, %d addition counts replayed, %d undecided' % (checked, undecided),
                 'ok' if bad is None and checked else ('undecided' if bad is None else 'VIOLATION'), nontrivial=checked > 0, node=enc, file=OER)
    if bad is not None:
        ctx.violation('C01.R4', OER, enc, 'asn1tools/codecs/oer.py::MembersType.encode_additions <-> decode_additions',
                      'with %d extension additions: %s -- the additions of such a SEQUENCE are lost or misparsed' % bad, stmt='extension bitmap width')
    c = model.cls(OER, 'BitString')
    enc, dec = c.methods['encode'], c.methods['decode']
    bad = None
    checked = 0
    for b in range(0, 65):
        try:
            e = replay.Slice(enc, {'data[1]': b, 'data': (None, b), 'self.number_of_bits': None}, replay.stream_param(enc, 'enc'), 'enc').run()
            d = replay.Slice(dec, {'self.number_of_bits': None}, replay.stream_param(dec, 'dec'), 'dec', tokens=e.tokens).run()
            checked += 1
            nb = e.env.get('number_of_bytes')
            rb = [w for k, w, tok, _ in d.reads if k == 'BYTES']
            ret = d.ret
            if not isinstance(ret, tuple) or ret[-1] is replay.UNKNOWN or d.desync:
                checked -= 1      # the returned bit count is not a closed expression for the slice: undecided
                continue
            if ret[-1] != b:
                bad = (b, 'the decoder derives %s bits' % (ret[-1],))
                break
            if rb and rb[0] is not replay.UNKNOWN and nb is not replay.UNKNOWN and rb[0] != nb:
                bad = (b, 'the decoder reads %s content octets, the encoder wrote %s' % (rb[0], nb))
                break
        except replay.Mismatch as ex:
            bad = (b, str(ex))
            break
    ctx.instance('C01.R4', 'oer.BitString length/unused-bits arithmetic, %d of 65 bit counts replayed' % checked,
                 'ok' if bad is None and checked else ('undecided' if bad is None else 'VIOLATION'), nontrivial=checked > 0, node=enc, file=OER)
    if bad is None and not checked:
        ctx.note('C01.R4 BitString arithmetic is not in a shape the slice interpreter follows: undecided')
    if bad is not None:
        ctx.violation('C01.R4', OER, enc, 'asn1tools/codecs/oer.py::BitString.encode <-> decode', 'for a BIT STRING of %d bits: %s' % bad, stmt='bit string width')

    # ---- R5
    mh = siblings.marker_handling(model)
    texts = {}
    for codec, (f, node, txt) in mh.items():
        texts.setdefault(txt, []).append(codec)
    major = max(texts.items(), key=lambda kv: len(kv[1]))[0]
    for codec, (f, node, txt) in sorted(mh.items()):
        ok = txt == major
        ctx.instance('C01.R5', '%s extension-marker branch: %s' % (Model.qual(f), txt[:70]), 'agrees' if ok else 'VIOLATION', node=node, file=f._mod.rel)
        if not ok:
            ctx.violation('C01.R5', f._mod.rel, node, Model.qual(f),
                          'the extension-marker state machine of this compile_members (`%s`) differs from its siblings (`%s`): components after a second "..." '
                          'are classified differently (root vs addition), so the codec packs the same type differently' % (txt, major), stmt='marker branch differs')
    if len(texts) > 1 and len(texts[major]) < 2:
        raise AnalysisError('compile_members siblings have no majority form')

    # ---- R6
    for rel in (PER, OER):
        obs = siblings.emptiness_observers(model, rel)
        enc_cls = model.cls(rel, 'Encoder')
        bad = siblings.flush_after_append(enc_cls)
        ctx.instance('C01.R6', '%s.Encoder: %d external emptiness observers, flush-after-append sites: %d' % (model.mod(rel).short, len(obs), len(bad)),
                     'ok' if not (obs and bad) else 'VIOLATION', nontrivial=bool(obs), node=enc_cls.node, file=rel)
        if obs and bad:
            for f, z in bad:
                ctx.violation('C01.R6', rel, z, Model.qual(f),
                              '`self.number_of_bits = 0` after the append in the same method: the bit count can be 0 although bits were just written, and %s '
                              'interprets `number_of_bits > 0` as "this extension addition is present" (a present addition is dropped)' % Model.qual(obs[0][0]),
                              stmt='flush after append')

    # ---- R9: an Encoder that spills its accumulator into chunks has its write position in two counters; octet-alignment arithmetic
    #      (mod 8, & 7, // 8) on one of them alone is wrong as soon as a spilled chunk is not a whole number of octets
    ctx.rule('C01.R9', 'Encoder alignment arithmetic uses the whole write position (spilled chunks + accumulator)')
    for rel in (PER, OER):
        enc_cls = model.cls(rel, 'Encoder')
        init = enc_cls.find_method('__init__')
        counters = set()
        if init:
            for n in walk_no_nested(init[1]):
                if isinstance(n, ast.Assign) and isinstance(n.value, ast.Constant) and n.value.value == 0:
                    for t in n.targets:
                        if isinstance(t, ast.Attribute) and isinstance(t.value, ast.Name) and t.value.id == 'self' and 'bits' in t.attr:
                            counters.add(t.attr)
        # a spill: a method that adds one counter to another and resets the first
        spills = False
        for g in enc_cls.methods.values():
            for n in walk_no_nested(g):
                if isinstance(n, ast.AugAssign) and isinstance(n.op, ast.Add) and isinstance(n.target, ast.Attribute) and n.target.attr in counters \
                        and isinstance(n.value, ast.Attribute) and n.value.attr in counters and n.value.attr != n.target.attr:
                    spills = True
        if len(counters) < 2 or not spills:
            ctx.instance('C01.R9', '%s.Encoder keeps its position in one counter' % model.mod(rel).short, 'n/a', nontrivial=False, node=enc_cls.node, file=rel)
            continue
        n9 = 0
        for name, g in sorted(enc_cls.methods.items()):
            v = sem.View(g)
            for n in walk_no_nested(g):
                if not (isinstance(n, ast.BinOp) and isinstance(n.op, (ast.BitAnd, ast.Mod, ast.FloorDiv))):
                    continue
                consts = [x.value for x in (n.left, n.right) if isinstance(x, ast.Constant)]
                if not any(c in (7, 8) for c in consts):
                    continue
                e = v.expr(n)
                # a call of a method of the class is read as what it returns
                mentioned = set()
                for x in ast.walk(e):
                    if isinstance(x, ast.Attribute) and isinstance(x.value, ast.Name) and x.value.id == 'self' and x.attr in counters:
                        mentioned.add(x.attr)
                    if isinstance(x, ast.Call) and isinstance(x.func, ast.Attribute) and isinstance(x.func.value, ast.Name) and x.func.value.id == 'self':
                        r = enc_cls.find_method(x.func.attr)
                        if r:
                            for y in ast.walk(r[1]):
                                if isinstance(y, ast.Attribute) and isinstance(y.value, ast.Name) and y.value.id == 'self' and y.attr in counters:
                                    mentioned.add(y.attr)
                if not mentioned:
                    continue
                n9 += 1
                ok = mentioned == counters
                ctx.instance('C01.R9', '%s: %s' % (Model.qual(g), ast.unparse(n)[:70]), 'whole position' if ok else 'VIOLATION', node=n, file=rel)
                if not ok:
                    ctx.violation('C01.R9', rel, n, Model.qual(g),
                                  'octet alignment is computed from %s alone (%s), but the write position is the sum of %s: after the accumulator was spilled into a chunk '
                                  'whose size is not a multiple of 8, padding and byte counts are off and every field after an align() lands at the wrong bit'
                                  % (', '.join('self.' + m for m in sorted(mentioned)), ast.unparse(n), ' + '.join('self.' + c for c in sorted(counters))), stmt=norm_stmt(Model.enclosing_stmt(n)))
        if n9 == 0:
            ctx.instance('C01.R9', '%s.Encoder alignment arithmetic' % model.mod(rel).short, 'undecided', 'no mod-8 arithmetic on the position counters found', nontrivial=False, node=enc_cls.node, file=rel)

    # ---- R8
    for rel in (PER, OER):
        for f, call, ok, why in siblings.reset_discipline(model, rel):
            ctx.instance('C01.R8', '%s [%s under %s]' % (Model.qual(f), ast.unparse(call), why[:80]), 'ok' if ok else 'VIOLATION', node=call, file=rel)
            if not ok:
                ctx.violation('C01.R8', rel, call, Model.qual(f),
                              '%s discards the encoded addition without comparing the encoder bit count with the size of the presence preamble (guards: %s): an addition group '
                              'whose present members all encode to zero bits (FALSE, lower bound, first enumeration item) is dropped and the value does not round-trip'
                              % (ast.unparse(call), why or 'none'), stmt='reset without length test')

    # ---- R7
    encs = siblings.members_encoders(model, ('ber', 'der', 'per', 'uper', 'oer'))
    if len(encs) < 6:
        raise AnalysisError('C01.R7 found only %d members encoders' % len(encs))
    for f in encs:
        bad = siblings.presence_violations(f)
        ctx.instance('C01.R7', Model.qual(f), '`name in data`' if not bad else 'VIOLATION', node=f, file=f._mod.rel)
        for node, why in bad:
            ctx.violation('C01.R7', f._mod.rel, node, Model.qual(f), why + ': a present NULL (value None) or falsy member is treated as absent and not encoded', stmt='presence by value')

    # ---- R10: delegation mirror (sa/deleg.py) on the binary codecs, BER/DER included (E1 covers the stream protocol of PER/UPER/OER only)
    ctx.rule('C01.R10', 'per configuration, decode / decode_content hand the data to the mirrored methods of the children that encode / encode_content handed the value to')
    n10 = 0
    for rel in ('asn1tools/codecs/ber.py', 'asn1tools/codecs/der.py', 'asn1tools/codecs/per.py', 'asn1tools/codecs/uper.py', 'asn1tools/codecs/oer.py'):
        for c in model.mod(rel).classes.values():
            if c.name in ('Compiler', 'Encoder', 'Decoder'):
                continue
            for en, dn in (('encode', 'decode'), ('encode_content', 'decode_content')):
                er, dr = c.find_method(en), c.find_method(dn)
                if not er or not dr or (er[1]._cls is not c and dr[1]._cls is not c):
                    continue
                mm = deleg.mismatches(c, en, dn)
                if mm is None:
                    ctx.instance('C01.R10', '%s.%s/%s' % (c.qname, en, dn), 'undecided', 'too many paths or configuration atoms', nontrivial=False, node=dr[1], file=rel)
                    continue
                n10 += 1
                ctx.instance('C01.R10', '%s.%s/%s' % (c.qname, en, dn), 'mirrored' if not mm else 'VIOLATION', nontrivial=any(d for _k, d in (deleg.deleg_paths(c, dr[1]) or [])),
                             node=dr[1], file=rel)
                for asg, extra, es in mm:
                    ctx.violation('C01.R10', rel, dr[1], Model.qual(dr[1]),
                                  'under the configuration %s the decoder can hand the data to %s while the encoder hands the value to %s only: what one child wrote is read by another '
                                  'child protocol' % (asg or '{}', [sorted(x) for x in extra], [sorted(x) for x in es]), stmt='%s delegations differ from %s' % (dn, en))
    if n10 < 60:
        raise AnalysisError('C01.R10 examined only %d method pairs' % n10)

    # ---- R11: conversion literal agreement (sa/siblings.py): int<->octets (byteorder, signed), text<->octets (encoding), struct (format)
    ctx.rule('C01.R11', 'the octet/text conversions of an encode path and of its decode path use the same parameters (byteorder, signed, encoding, struct format)')
    n11 = 0
    for rel in ('asn1tools/codecs/ber.py', 'asn1tools/codecs/der.py', 'asn1tools/codecs/per.py', 'asn1tools/codecs/uper.py', 'asn1tools/codecs/oer.py'):
        for c, ef, df, kind, pe, pd, ok in siblings.conversion_agreement(model, rel):
            n11 += 1
            ctx.instance('C01.R11', '%s %s: encoder %s / decoder %s' % (c.qname, kind, sorted(pe), sorted(pd)), 'ok' if ok else 'VIOLATION', node=df, file=rel)
            if not ok:
                ctx.violation('C01.R11', rel, df, Model.qual(df),
                              '%s converts %s with %s when encoding and with %s when decoding: the decoder does not read back what the encoder wrote' % (c.name, kind, sorted(pe), sorted(pd)),
                              stmt='%s parameters differ' % kind)
    if n11 < 10:
        raise AnalysisError('C01.R11 found only %d conversion pairs' % n11)

    # ---- R12: the bit-field primitive of the PER and OER encoders, evaluated (sa/bitmachine.py) on fields that carry more octets than the bits need:
    #      BIT STRING values are handed to it as the user gave them (the type check asks for "at least n bits")
    ctx.rule('C01.R12', 'Encoder.append_bits writes exactly the first n bits of the data it is handed (bounded evaluation of the method body)')
    from .. import bitmachine
    for rel in ('asn1tools/codecs/per.py', 'asn1tools/codecs/oer.py'):
        ecls = model.mod(rel).classes.get('Encoder')
        fe = ecls.methods.get('append_bits') if ecls else None
        if fe is None:
            raise AnalysisError('%s: Encoder.append_bits vanished' % rel)
        n_ok, n_und, bad_, und_ = bitmachine.check_append_bits(model, ecls)
        ctx.instance('C01.R12', '%s: %d cases evaluated, %d undecided' % (Model.qual(fe), n_ok, n_und), 'VIOLATION' if bad_ else ('ok' if n_ok else 'undecided'), und_ or '',
                     nontrivial=n_ok > 0, node=fe, file=rel)
        if bad_:
            ctx.violation('C01.R12', rel, fe, Model.qual(fe), '%s: %s -- the bits written before the field are corrupted and the decoder reads another value' % bad_, stmt='bit field (append_bits)')

    # DEFAULT elision compares cleaned BIT STRING values: what "cleaned" computes is decided by evaluation (shared with C03.R3)
    from .C03 import clean_value_rule
    clean_value_rule(ctx, 'C01.R3')

    # ---- R13: the text of the time types has fields of fixed width on both sides.  strptime('%Y') reads four digits, but strftime('%Y') writes the year unpadded
    #      with glibc (year 999 -> '999'): a formatting directive whose width depends on the platform must not produce encoded text.
    ctx.rule('C01.R13', 'time text is written with fixed-width fields: no strftime directive of platform-dependent width (%Y, %G, %C) on the encode side')
    n13 = 0
    for m_ in model.modules.values():
        if not m_.rel.startswith('asn1tools/codecs/'):
            continue
        for f_ in Model.all_functions_of(m_) if hasattr(Model, 'all_functions_of') else [x_ for x_ in ast.walk(m_.tree) if isinstance(x_, ast.FunctionDef)]:
            for c_ in walk_no_nested(f_):
                if not (isinstance(c_, ast.Call) and isinstance(c_.func, ast.Attribute) and c_.func.attr == 'strftime' and c_.args):
                    continue
                a_ = c_.args[0]
                fmts = []
                if isinstance(a_, ast.Constant) and isinstance(a_.value, str):
                    fmts = [a_.value]
                elif isinstance(a_, ast.Name):
                    r_ = m_.resolve_name(a_.id)
                    if isinstance(r_, tuple) and r_[0] == 'const' and isinstance(r_[1], ast.Constant):
                        fmts = [r_[1].value]
                    else:
                        fmts = [x_.value.value for x_ in walk_no_nested(f_) if isinstance(x_, ast.Assign) and isinstance(x_.value, ast.Constant) and isinstance(x_.value.value, str)
                                and any(isinstance(t_, ast.Name) and t_.id == a_.id for t_ in x_.targets)]
                elif isinstance(a_, ast.Attribute) and isinstance(a_.value, ast.Name) and a_.value.id in ('self', 'cls'):
                    # a class-level format: every class of the module that sets it
                    fmts = [k_.attrs[a_.attr].value for mm_ in model.modules.values() if mm_.rel.startswith('asn1tools/codecs/') for k_ in mm_.classes.values()
                            if a_.attr in k_.attrs and isinstance(k_.attrs[a_.attr], ast.Constant) and isinstance(k_.attrs[a_.attr].value, str)]
                n13 += 1
                bad_ = sorted({d_ for t_ in fmts for d_ in re.findall(r'%[-_0^#]?[YGC]', t_)})
                ctx.instance('C01.R13', '%s strftime(%s)' % (Model.qual(f_), ast.unparse(a_)[:40]), 'VIOLATION' if bad_ else ('fixed width' if fmts else 'undecided'),
                             '' if fmts else 'format not resolved', nontrivial=bool(fmts), node=c_, file=m_.rel)
                if bad_:
                    ctx.violation('C01.R13', m_.rel, c_, Model.qual(f_),
                                  'the encoded time text is produced by strftime with %s: the C library does not zero pad the year (year 999 gives "999", not "0999"), while the '
                                  'decoder reads a four digit year -- a value before the year 1000 is encoded to text that is not decoded back to it' % ', '.join(bad_),
                                  stmt='strftime(%s)' % ast.unparse(a_)[:40])
    if n13 < 4:
        raise AnalysisError('C01.R13 found only %d strftime sites in asn1tools/codecs' % n13)

    # ---- R15: OBJECT IDENTIFIER contents (X.690 8.19, used by BER, DER, PER, UPER and OER alike): first subidentifier 40 * X + Y with X in 0..2 and Y >= 40 only under X = 2,
    #      every subidentifier in base 128, most significant group first.  encode_object_identifier and decode_object_identifier are evaluated (sa/evalexpr.py) on a grid of
    #      identifiers against octets computed here, and against each other.
    ctx.rule('C01.R15', 'OBJECT IDENTIFIER: encoder and decoder of the contents octets evaluated on boundary identifiers against X.690 8.19 and as inverses of each other')
    from .. import evalexpr as _ev15
    bm = model.mod('asn1tools/codecs/ber.py')
    eo, do = bm.functions.get('encode_object_identifier'), bm.functions.get('decode_object_identifier')
    if eo is None or do is None:
        raise AnalysisError('ber.encode_object_identifier / decode_object_identifier vanished')

    def b128(v_):
        out_ = [v_ & 0x7f]
        v_ >>= 7
        while v_:
            out_.insert(0, 0x80 | (v_ & 0x7f))
            v_ >>= 7
        return out_
    oids = ['0.0', '0.39', '1.0', '1.39.3', '2.0', '2.39.1', '2.40.5', '2.47', '2.48.1', '2.100', '2.999.1', '2.999', '1.2.840.113549.1.1.11', '2.5.4.3', '0.9.2342.19200300.100.1.25',
            '2.16.840.1.101.3.4.2.1', '1.3.6.1.4.1.311.21.20', '2.127.128.16383.16384.2097151.2097152', '1.2.0.0.127.128', '2.4294967296.1']
    n_ok = n_und = 0
    bad = None
    und = ''
    ep_, dp_ = flow.param_names(eo), flow.param_names(do)
    for oid in oids:
        arcs = [int(x_) for x_ in oid.split('.')]
        ref = b128(40 * arcs[0] + arcs[1])
        for a_ in arcs[2:]:
            ref += b128(a_)
        try:
            got_e, _e = _ev15.run_function(eo, {ep_[0]: oid})
            got_e = list(got_e)
            got_d, _e = _ev15.run_function(do, {dp_[0]: bytearray(ref), dp_[1]: 0, dp_[2]: len(ref)})
        except (_ev15.Unsupported, _ev15.Raised) as e_:
            n_und += 1
            und = und or '%s: %s' % (oid, str(e_)[:70])
            continue
        if got_e != ref:
            bad = bad or ('encode', oid, bytes(got_e).hex() if all(isinstance(x_, int) and 0 <= x_ < 256 for x_ in got_e) else got_e, bytes(ref).hex())
        elif got_d != oid:
            bad = bad or ('decode', oid, got_d, bytes(ref).hex())
        else:
            n_ok += 1
    ctx.instance('C01.R15', 'ber.encode_object_identifier / decode_object_identifier on %d identifiers (%d undecided)' % (n_ok + (1 if bad else 0), n_und),
                 'VIOLATION' if bad else ('ok' if n_ok > n_und else 'undecided'), und, nontrivial=n_ok > n_und, node=do, file=bm.rel)
    if bad:
        which, oid, got, refhex = bad
        if which == 'encode':
            ctx.violation('C01.R15', bm.rel, eo, Model.qual(eo), 'OBJECT IDENTIFIER %s is encoded as %s, X.690 8.19 gives %s: the value does not round-trip and other implementations read another identifier'
                          % (oid, got, refhex), stmt='object identifier contents (encode)')
        else:
            ctx.violation('C01.R15', bm.rel, do, Model.qual(do), 'the contents octets %s of OBJECT IDENTIFIER %s are decoded as %s: the first subidentifier is 40 * X + Y with X at most 2, so every '
                          'identifier under 2.40 and above (2.999.1) comes back as another value in BER, DER, PER, UPER and OER' % (refhex, oid, got), stmt='object identifier contents (decode)')

    # ---- R16: a DEFAULT is never lost between the text and the codec.  The parser stores `member['default'] = convert_value(..)`; downstream "default is None" means "the
    #      component has no DEFAULT" (has_default()).  A value notation the converter cannot represent must therefore be rejected, not answered with None: with None the
    #      specification is accepted, the component silently becomes mandatory (an absent value is refused, PER has no preamble bit for it, DER encodes the default value).
    ctx.rule('C01.R16', 'parser: the converter of DEFAULT values has no path that answers None (= no DEFAULT) for a value notation it does not understand')
    pm = model.mod('asn1tools/parser.py')
    n16 = 0
    for g16 in pm.functions.values():
        for a16 in walk_no_nested(g16):
            if not (isinstance(a16, ast.Assign) and any(isinstance(t_, ast.Subscript) and isinstance(t_.slice, ast.Constant) and t_.slice.value == 'default' for t_ in a16.targets)):
                continue
            v16 = sem.View(g16)
            srcs = [a16.value]
            if isinstance(a16.value, ast.Name):
                srcs = [b_.value for b_ in walk_no_nested(g16) if isinstance(b_, ast.Assign) and any(isinstance(t_, ast.Name) and t_.id == a16.value.id for t_ in b_.targets)]
            for e16 in srcs:
                if not (isinstance(e16, ast.Call) and isinstance(e16.func, ast.Name)):
                    continue
                conv = pm.resolve_name(e16.func.id)
                if not isinstance(conv, ast.FunctionDef):
                    continue
                n16 += 1
                cps = sem.paths(conv) or []
                none_paths = []
                for p_ in cps:
                    if p_.outcome[0] != 'return':
                        continue
                    rv = p_.outcome[3] if len(p_.outcome) > 3 else None
                    if rv is None or (isinstance(rv, ast.Constant) and rv.value is None):
                        none_paths.append(p_)
                ctx.instance('C01.R16', '%s stores %s(..) as the DEFAULT' % (Model.qual(g16), conv.name), 'VIOLATION' if none_paths else 'every path converts or raises', node=conv, file=pm.rel)
                if none_paths:
                    p_ = none_paths[0]
                    ctx.violation('C01.R16', pm.rel, conv, 'asn1tools/parser.py::%s' % conv.name,
                                  '%s() answers None on the path [%s] and %s stores that as the member\'s DEFAULT: `s SEQUENCE { x INTEGER } DEFAULT { x 5 }`, `l SEQUENCE OF INTEGER '
                                  'DEFAULT {1, 2}` are accepted, the component is then treated as having no DEFAULT at all -- encoding {} is refused ("member \'s\' not found"), PER / UPER send '
                                  'no presence bit for it and DER encodes a value equal to the default'
                                  % (conv.name, '; '.join(('' if c_[1] else 'not ') + c_[0] for c_ in p_.conds)[:160], g16.name), stmt='DEFAULT value converted to None')
    if n16 < 1:
        ctx.instance('C01.R16', 'the statement that stores a converted DEFAULT value was not found in asn1tools/parser.py', 'undecided', nontrivial=False)

    # ---- R14: the decoders of the known-multiplier strings rebuild the octets of each character for <bytes>.decode(ENCODING).  How many octets a character has is a matter of
    #      the encoding (two for BMPString), not of the bits it takes on the wire: a permitted alphabet narrows the field, not the character.  Every decode method of the
    #      family therefore converts with the same width, the one derived from the unconstrained alphabet.
    ctx.rule('C01.R14', 'known-multiplier strings: every decode path rebuilds the character octets with the width of the unconstrained alphabet (not the bits of the field)')
    n14 = 0
    for rel in (PER, UPER):
        kc = model.mod(rel).classes.get('KnownMultiplierStringType')
        if kc is None:
            raise AnalysisError('%s: KnownMultiplierStringType vanished' % rel)
        for mn, g_ in sorted(kc.methods.items()):          # every method of the class itself (what it inherits from the aligned class is examined there)
            gv = sem.View(g_)
            for x_ in walk_no_nested(g_):
                if not (isinstance(x_, ast.Call) and isinstance(x_.func, ast.Name) and x_.func.id == 'to_byte_array' and len(x_.args) == 2):
                    continue
                widths = [(g_, gv.expr(x_.args[1]))]
                if isinstance(widths[0][1], ast.Name) and widths[0][1].id in flow.param_names(g_):
                    # the width is handed in: what the callers of the step (in the aligned and the unaligned class) pass for it
                    idx_ = [p_ for p_ in flow.param_names(g_) if p_ != 'self'].index(widths[0][1].id)
                    widths = []
                    for rel2 in (PER, UPER):
                        k2 = model.mod(rel2).classes.get('KnownMultiplierStringType')
                        for h_ in (k2.methods.values() if k2 else []):
                            hv = sem.View(h_)
                            for c_ in walk_no_nested(h_):
                                if isinstance(c_, ast.Call) and isinstance(c_.func, ast.Attribute) and c_.func.attr == g_.name and isinstance(c_.func.value, ast.Name) \
                                        and c_.func.value.id == 'self' and idx_ < len(c_.args):
                                    widths.append((h_, hv.expr(c_.args[idx_])))
                for h_, w_ in widths:
                    n14 += 1
                    wt = ast.unparse(w_)
                    field = 'bits_per_character' in wt and 'ALPHABET' not in wt
                    ctx.instance('C01.R14', '%s to_byte_array(.., %s)' % (Model.qual(h_), wt[:60]), 'VIOLATION' if field else ('width of the alphabet' if 'ALPHABET' in wt else 'undecided'),
                                 nontrivial='ALPHABET' in wt or field, node=x_, file=h_._mod.rel)
                    if field:
                        ctx.violation('C01.R14', h_._mod.rel, x_, Model.qual(h_),
                                      'the octets of a decoded character are rebuilt with `%s`, the number of bits of the (possibly constrained) field: a BMPString (FROM ("a".."z")) has 8 bit '
                                      'fields but two octets per character, so the decoded octets are not UTF-16 and the value the encoder accepted cannot be decoded (UnicodeDecodeError)'
                                      % wt[:60], stmt='character width from the field')
    if n14 < 1:
        raise AnalysisError('C01.R14 found only %d character conversions' % n14)


MUTANTS = [
    dict(name='first OID subidentifier always split with divmod 40', file='asn1tools/codecs/ber.py',
         old="""    if subidentifier < 80:
        decoded = [subidentifier // 40, subidentifier % 40]
    else:
        decoded = [2, subidentifier - 80]""", new="""    decoded = [subidentifier // 40, subidentifier % 40]""", expect='C01.R15'),
    dict(name='bounded string decode rebuilds characters with the width of the field', file=UPER,
         old="""            data += to_byte_array(value, orig_bits_per_character)""", new="""            data += to_byte_array(value, self.bits_per_character)""", expect='C01.R14'),
    dict(name='restricted generalized time year through strftime', file='asn1tools/codecs/__init__.py',
         old="""        string = format_year(date) + date.strftime('%m%d%H%M%S')

    return string + 'Z'""", new="""        string = date.strftime('%Y%m%d%H%M%S')

    return string + 'Z'""", expect='C01.R13'),
    dict(name='addition group reset on all-zero bits alone', file=PER,
         old="""        if (encoder.are_all_bits_zero()
            and (encoder.number_of_bits == len(self.optionals))):
            encoder.reset()""", new="""        if encoder.are_all_bits_zero():
            encoder.reset()""", expect='C01.R8'),
    dict(name='per.OctetString.decode loses its align', file=PER, quick=True,
         old="""        if align:
            decoder.align()

        return decoder.read_bytes(length)""", new="""        return decoder.read_bytes(length)""", expect='C01.R1'),
    dict(name='uper.Integer.decode reads one bit more', file=UPER, quick=True,
         old="""            value = decoder.read_non_negative_binary_integer(self.number_of_bits)""",
         new="""            value = decoder.read_non_negative_binary_integer(self.number_of_bits + 1)""", expect='C01.R1'),
    dict(name='oer.MembersType.encode drops the extension bit', file=OER, quick=True,
         old="""            offset = encoder.number_of_bits
            encoder.append_bit(0)
            self.encode_root(data, encoder)""", new="""            offset = encoder.number_of_bits
            self.encode_root(data, encoder)""", expect='C01.R1'),
    dict(name='per.Null.decode reads a bit', file=PER,
         old="""    def decode(self, _):
        return None""", new="""    def decode(self, _):
        _.read_bit()
        return None""", expect='C01.R1'),
    dict(name='per encode_member encodes defaults', file=PER,
         old="                elif not member.is_default(data[name]) or encode_default:", new="                elif member.is_default(data[name]) or encode_default:", expect='C01.R3'),
    dict(name='oer unused bits 8 - n % 8 again', file=OER,
         old="        number_of_unused_bits = (-number_of_additions % 8)", new="        number_of_unused_bits = (8 - (number_of_additions % 8))", expect='C01.R4'),
    dict(name='oer compile_members never leaves the extension', file=OER,
         old="""            if member == EXTENSION_MARKER:
                in_extension = not in_extension

                if in_extension:
                    additions = []""", new="""            if member == EXTENSION_MARKER:
                in_extension = True

                if additions is None:
                    additions = []""", expect='C01.R5'),
    dict(name='per Encoder flushes eagerly', file=PER,
         old="""        if self.number_of_bits > 4096:
            self.chunks.append([self.value, self.number_of_bits])
            self.chunks_number_of_bits += self.number_of_bits
            self.number_of_bits = 0
            self.value = 0

        self.number_of_bits += number_of_bits
        self.value <<= number_of_bits
        self.value |= value
""", new="""        self.number_of_bits += number_of_bits
        self.value <<= number_of_bits
        self.value |= value

        if self.number_of_bits > 4096:
            self.chunks.append([self.value, self.number_of_bits])
            self.chunks_number_of_bits += self.number_of_bits
            self.number_of_bits = 0
            self.value = 0
""", expect='C01.R6'),
    dict(name='ber decode_members forgets defaults', file=BER,
         old="""            if member.has_default():
                values[member.name] = member.get_default()
            elif ignore_missing:""", new="""            if member.has_default():
                pass
            elif ignore_missing:""", expect='C01.R3'),
]
REFACTORS = [
    dict(name='align flag rewritten as nested ifs in per.OctetString.decode', file=PER, quick=True,
         old="""        if align:
            decoder.align()

        return decoder.read_bytes(length)""",
         new="""        if align is True:
            decoder.align()

        data = decoder.read_bytes(length)

        return data"""),
]

MUTANTS.append(dict(name='Encoder.align_always pads from the accumulator count alone', file=PER,
                    old="""        width = 8 * self.number_of_bytes()
        width -= self.chunks_number_of_bits
        width -= self.number_of_bits
""", new="""        width = (-self.number_of_bits & 0x7)
""", expect='C01.R9'))

MUTANTS.append(dict(name='BER explicit tag decodes its contents with the inner content decoder', file='asn1tools/codecs/ber.py',
                    old="        values, end_offset = self.inner.decode(data, offset)", new="        values, end_offset = self.inner.decode_content(data, offset, length)", expect='C01.R10'))

MUTANTS.append(dict(name='DER INTEGER contents read as unsigned', file='asn1tools/codecs/der.py',
                    old="        return int.from_bytes(data[offset:end_offset], byteorder='big', signed=True), end_offset",
                    new="        return int.from_bytes(data[offset:end_offset], byteorder='big', signed=False), end_offset", expect='C01.R11'))

MUTANTS.append(dict(name='PER append_bits assumes exactly ceil(n / 8) octets of data', file=PER,
                    old="""        value = int(binascii.hexlify(data), 16)
        value >>= (8 * len(data) - number_of_bits)
""", new="""        value = (int.from_bytes(data, 'big') >> (-number_of_bits % 8))
""", expect='C01.R12'))
