"""C19 -- encodings do not depend on how the text is organised (DESIGN.md section 4 C19)."""
import ast
import re

from ..model import AnalysisError, Model, walk_no_nested, norm_stmt, names_in
from .. import flow, dispatch, copyrule, sem

EXPLANATION = (
    'A referenced type must be seen exactly like the same type written inline.  Decided: (R1a) every compiler method configures a '
    'compiled object (set_* call, attribute store) only when the reaching binding owns it (constructor or self.copy/copy) -- compiled '
    'user types are cached and shared between all references; (R1b) post-copy mutators (set_default/set_tag/set_size_range/'
    'set_restricted_to_range) write depth-1 only: a mutator call or store through self.<attr> reaches the original shared by the shallow '
    'copy unless <attr> was re-bound first; (R2) the kinds for which the parser converts a DEFAULT value by the *syntactic* member type are '
    're-converted by the compiler after resolving references (or the untyped fallback is the same conversion); (R3) every constraint/tag key '
    'consumed on the inline path of a codec dispatch is consumed for type references too; (R4) lookup tests the own module before IMPORTS and '
    'recurses through the exporting module; (R5) the compiled-type cache key has module, type name and member name; duplicates in '
    'Specification.types are removed independent of order.  Not decided: equality of bytes across all reorganisations.')
BASE = 'asn1tools/codecs/compiler.py'
PARSER = 'asn1tools/parser.py'
COMP = 'asn1tools/compiler.py'
CODECS = ['ber', 'der', 'per', 'uper', 'oer', 'jer', 'xer', 'gser', 'type_checker', 'constraints_checker']
POST_COPY = ('set_default', 'set_tag', 'set_size_range', 'set_restricted_to_range')


def _first_self_attr(e):
    """For an expression rooted at self with at least one attribute hop (self.a, self.a.b, self.a[0].c):
    the first attribute name; else None."""
    first = None
    while True:
        if isinstance(e, ast.Attribute):
            if isinstance(e.value, ast.Name) and e.value.id == 'self':
                return e.attr
            e = e.value
        elif isinstance(e, (ast.Subscript, ast.Call)):
            e = e.value if isinstance(e, ast.Subscript) else e.func
        else:
            return None


def check(ctx):
    model = ctx.model
    ctx.rule('C19.R1a', 'compilers configure only owned (constructed or copied) compiled objects')
    ctx.rule('C19.R1b', 'post-copy mutators write depth-1 only (no write through self.<attr> into the object shared by the shallow copy)')
    ctx.rule('C19.R2', 'DEFAULT conversion keyed on the syntactic type is repeated on the resolved type')
    ctx.rule('C19.R3', 'descriptor keys consumed inline are consumed on the reference path of every size-aware codec')
    ctx.rule('C19.R4', 'lookup order: own module first, then IMPORTS, recursing through the exporting module')
    ctx.rule('C19.R5', 'compiled-type cache key = (module, type name, member name); duplicate type names removed order-independently')

    rels = [BASE] + ['asn1tools/codecs/%s.py' % c for c in CODECS]
    # ---- R1a
    n = 0
    for f, node, var, what, owned, why in copyrule.sites(model, rels):
        n += 1
        ctx.instance('C19.R1a', '%s %s' % (Model.qual(f), what), 'owned' if owned else 'VIOLATION', why, node=node, file=f._mod.rel)
        if not owned:
            ctx.violation('C19.R1a', f._mod.rel, node, Model.qual(f),
                          '%s configures an object that may be the cached instance shared by every reference to a named type (%s): '
                          'a reference then behaves differently from the inline spelling, and unrelated references change' % (what, why),
                          stmt=norm_stmt(Model.enclosing_stmt(node)))
    if n < 8:
        raise AnalysisError('C19.R1a found only %d configuration sites' % n)

    # ---- R1b
    n = 0
    for rel in rels:
        m = model.mod(rel)
        for c in m.classes.values():
            for mn in POST_COPY:
                f = c.methods.get(mn)
                if f is None:
                    continue
                n += 1
                rebound = {}
                bad = []
                for s in walk_no_nested(f):
                    pass
                # statement order walk
                stmts = sorted([s for s in walk_no_nested(f) if isinstance(s, ast.stmt)], key=lambda s: (s.lineno, s.col_offset))
                for s in stmts:
                    if isinstance(s, ast.Assign):
                        for t in s.targets:
                            if isinstance(t, ast.Attribute) and isinstance(t.value, ast.Name) and t.value.id == 'self':
                                rebound[t.attr] = s.lineno
                    # deep writes
                    for x in [s] + [y for y in ast.iter_child_nodes(s) if isinstance(y, ast.expr)]:
                        pass
                    deep = []
                    if isinstance(s, (ast.Assign, ast.AugAssign)):
                        tg = s.targets if isinstance(s, ast.Assign) else [s.target]
                        for t in tg:
                            if isinstance(t, (ast.Attribute, ast.Subscript)):
                                a1 = _first_self_attr(t.value)
                                if a1:
                                    deep.append((a1, ast.unparse(t)))
                    if isinstance(s, ast.Expr) and isinstance(s.value, ast.Call) and isinstance(s.value.func, ast.Attribute):
                        fn = s.value.func
                        a1 = _first_self_attr(fn.value)
                        if a1 and (fn.attr.startswith('set_') or fn.attr in ('append', 'extend', 'update', 'insert', 'pop', 'clear', 'remove', 'add', 'setdefault')):
                            deep.append((a1, ast.unparse(fn) + '()'))
                    for attr, what in deep:
                        if attr in rebound and rebound[attr] < s.lineno:
                            continue
                        bad.append((s, attr, what))
                ctx.instance('C19.R1b', '%s.%s' % (c.qname, mn), 'depth-1' if not bad else 'VIOLATION', nontrivial=bool(f.body and not isinstance(f.body[0], ast.Pass)), node=f, file=rel)
                for s, attr, what in bad:
                    ctx.violation('C19.R1b', rel, s, '%s::%s.%s' % (rel, c.name, mn),
                                  '%s writes through self.%s: after compile_member made a shallow copy of a cached type, self.%s is still the object '
                                  'shared with every other reference to that type, so the setting leaks to unrelated components' % (what, attr, attr))
    if n < 20:
        raise AnalysisError('C19.R1b found only %d post-copy mutators' % n)

    # ---- R2
    cv = model.func(PARSER, 'convert_value')
    cvp = set(flow.param_names(cv))
    cvv = sem.View(cv)
    syn = []
    for node in walk_no_nested(cv):
        if isinstance(node, ast.Compare) and len(node.ops) == 1 and isinstance(node.ops[0], ast.Eq):
            for a_, b_ in ((node.left, node.comparators[0]), (node.comparators[0], node.left)):
                if isinstance(b_, ast.Constant) and isinstance(b_.value, str) and isinstance(cvv.expr(a_), ast.Name) and cvv.expr(a_).id in cvp and b_.value not in syn:
                    syn.append(b_.value)
    if not syn:
        raise AnalysisError('convert_value no longer dispatches on the syntactic type')
    # the same kind of test anywhere else in the parser where a DEFAULT is produced: a comparison of a member's written type
    # (`<x>['type'] == 'REAL'`) in a function that stores a 'default' entry
    builtin_kinds = set(dispatch.table(model, 'ber').cells)
    pm = model.mod(PARSER)
    syn_sites = {k: cv for k in syn}
    for g_ in [n for n in ast.walk(pm.tree) if isinstance(n, ast.FunctionDef) and n is not cv]:
        stores_default = any(isinstance(n_, ast.Subscript) and isinstance(n_.ctx, ast.Store) and isinstance(n_.slice, ast.Constant) and n_.slice.value == 'default' for n_ in walk_no_nested(g_))
        if not stores_default:
            continue
        gv_ = sem.View(g_)
        for node in walk_no_nested(g_):
            if not isinstance(node, ast.Compare) or len(node.ops) != 1:
                continue
            consts_ = []
            if isinstance(node.ops[0], (ast.Eq, ast.NotEq)):
                pairs_ = ((node.left, node.comparators[0]), (node.comparators[0], node.left))
                consts_ = [(a_, [b_.value]) for a_, b_ in pairs_ if isinstance(b_, ast.Constant) and isinstance(b_.value, str)]
            elif isinstance(node.ops[0], (ast.In, ast.NotIn)) and isinstance(node.comparators[0], (ast.List, ast.Tuple, ast.Set)):
                consts_ = [(node.left, [e_.value for e_ in node.comparators[0].elts if isinstance(e_, ast.Constant) and isinstance(e_.value, str)])]
            for a_, vals_ in consts_:
                if gv_.text(a_).endswith("['type']"):
                    for v_ in vals_:
                        if v_ in builtin_kinds and v_ not in syn:
                            syn.append(v_)
                            syn_sites[v_] = g_
    pd = model.func(BASE, 'Compiler.pre_process_default_value')
    comp_cls = pd._cls
    helpers = [pd]
    for _ in range(2):
        for g in list(helpers):
            for c_ in walk_no_nested(g):
                if isinstance(c_, ast.Call) and isinstance(c_.func, ast.Attribute) and isinstance(c_.func.value, ast.Name) and c_.func.value.id == 'self':
                    r_ = comp_cls.find_method(c_.func.attr)
                    if r_ and r_[1] not in helpers and r_[1].name.startswith('pre_process_default'):
                        helpers.append(r_[1])
    res = set()
    for g in helpers:
        gv = sem.View(g)
        for node in walk_no_nested(g):
            if isinstance(node, ast.Compare) and len(node.ops) == 1 and isinstance(node.ops[0], ast.Eq):
                for a_, b_ in ((node.left, node.comparators[0]), (node.comparators[0], node.left)):
                    if isinstance(b_, ast.Constant) and isinstance(b_.value, str):
                        t_ = gv.text(a_)
                        if 'resolve' in t_ and t_.endswith("['type']"):
                            res.add(b_.value)
    # the untyped fallback of convert_value
    fallback_same = set()
    p0 = flow.param_names(cv)[0]
    if any(cvv.text(c_.args[0]) == '%s[0]' % p0 for c_ in sem.method_calls(cv, 'convert_number', cvv) if c_.args):
        cn = model.func(PARSER, 'convert_number')
        if any(isinstance(c_, ast.Call) and isinstance(c_.func, ast.Name) and c_.func.id == 'int' for c_ in walk_no_nested(cn)):
            fallback_same.add('INTEGER')     # int(tokens[0]) == convert_number(tokens[0]) for digit strings
    for k in syn:
        ok = k in res or k in fallback_same
        how = 're-converted on the resolved type' if k in res else ('untyped fallback is the same conversion' if k in fallback_same else '')
        site_ = syn_sites.get(k, cv)
        ctx.instance('C19.R2', "DEFAULT of syntactic kind '%s' (%s)" % (k, site_.name), how if ok else 'VIOLATION', node=site_, file=PARSER)
        if not ok:
            ctx.violation('C19.R2', PARSER, site_, "asn1tools/parser.py::%s::kind '%s'" % (site_.name, k),
                          "the parser converts a DEFAULT value of kind '%s' only when the member's type is written inline; for `x T DEFAULT ...` with "
                          "`T ::= %s` the untyped fallback yields a different value and the compiler does not re-convert after resolving T "
                          '(resolved kinds re-converted: %s)' % (k, k, sorted(res)), stmt="syntactic kind '%s'" % k)

    # ---- R3
    for codec in ('per', 'uper', 'oer', 'constraints_checker'):
        tab = dispatch.table(model, codec)
        inline = set()
        for cell in tab.cells.values():
            for s in cell.body:
                src = ast.unparse(s)
                if 'get_size_range(' in src:
                    inline.add('size')
                if 'get_permitted_alphabet(' in src:
                    inline.add('from')
                if 'get_with_components(' in src or "'with-components'" in src:
                    inline.add('with-components')
        tail_keys = {nd.value for s in tab.tail for nd in ast.walk(s) if isinstance(nd, ast.Constant) and isinstance(nd.value, str)}
        for k in ('tag', 'restricted-to'):
            if codec == 'constraints_checker' and k == 'tag':
                continue
            inline.add(k)
        for k in sorted(inline):
            ok = k in tail_keys
            ctx.instance('C19.R3', "%s: key '%s' on the reference path" % (codec, k), 'ok' if ok else 'VIOLATION', node=tab.func, file=tab.rel)
            if not ok:
                ctx.violation('C19.R3', tab.rel, tab.func, "%s::Compiler.compile_type::reference-path key '%s'" % (tab.rel, k),
                              "codec %s consumes '%s' for inline types only: a constrained reference `U ::= T (...)` is compiled as plain T "
                              '(different bytes than the inline spelling)' % (codec, k), stmt="key '%s' not in tail" % k)

    # ---- R4   lookup_in_modules(section, debug_string, name, module_name) = (ARG0, ARG1, ARG2, ARG3)
    f = model.func(BASE, 'Compiler.lookup_in_modules')
    ps = sem.paths(f, positional=True)
    if ps is None:
        raise AnalysisError('lookup_in_modules: too many paths')
    allp = sem.with_loop_bodies(ps)
    own = re.compile(r'^ARG2 in .+\[ARG3\]\[ARG0\]$')
    own_true = [p for p in allp if p.outcome[0] == 'return' and any(own.match(c[0]) and c[1] for c in p.conds)]
    ok = bool(own_true)
    for p in own_true:
        e = p.outcome[3]
        if not (isinstance(e, ast.Tuple) and len(e.elts) == 2 and sem.ctext(e.elts[1]) == 'ARG3' and re.match(r'^.+\[ARG3\]\[ARG0\]\[ARG2\]$', sem.ctext(e.elts[0]))):
            ok = False
        if p.calls('lookup_in_modules') or any(ev[0] == 'loop' for ev in p.events):
            ok = False
    # the imports are consulted only after the own module did not have the name
    for p in allp:
        if p.calls('lookup_in_modules') or any(ev[0] == 'loop' for ev in p.events):
            if not any(own.match(c[0]) and not c[1] for c in p.conds):
                ok = False
    ctx.instance('C19.R4', 'lookup_in_modules: own module first', 'ok' if ok else 'VIOLATION', node=f, file=BASE)
    if not ok:
        ctx.violation('C19.R4', BASE, f, Model.qual(f), 'the own module is no longer searched before the imports', stmt='own module first')
    rec_ok = False
    imp_ok = False
    nrec = 0
    cres = sem.class_resolver(f._cls)

    def recursive_args(ev):
        """the arguments of the recursive call this event makes: directly, or through a helper method that is handed the arguments
        and calls lookup_in_modules with them"""
        if sem.callee_name(ev[2]) == f.name:
            return list(ev[3].args)
        h = cres(ev[2])
        if h is None or h is f or ev[3].keywords:
            return None
        hp = [a.arg for a in h.args.args]
        if hp and hp[0] in ('self', 'cls'):
            hp = hp[1:]
        if len(hp) != len(ev[3].args):
            return None
        bind = dict(zip(hp, ev[3].args))
        for c_ in walk_no_nested(h):
            if isinstance(c_, ast.Call) and sem.callee_name(c_) == f.name and not c_.keywords and all(isinstance(a, ast.Name) and a.id in bind for a in c_.args):
                return [bind[a.id] for a in c_.args]
        return None
    for p in allp:
        for ev in p.events:
            ra = recursive_args(ev) if ev[0] == 'call' and len(ev) > 3 else None
            if ra is not None and len(ra) >= 4:
                nrec += 1
                a2, a3 = sem.ctext(ra[2]), ra[3]
                if a2 == 'ARG2' and isinstance(a3, ast.Name) and '@' in a3.id:
                    rec_ok = True
                    # on this path the import list of that module was found to contain the name
                    if any(c[1] and c[0].startswith('ARG2 in ') and '@' in c[0] for c in p.conds):
                        imp_ok = True
    ctx.instance('C19.R4', 'lookup_in_modules: recursion through the exporting module', 'ok' if rec_ok else 'VIOLATION', node=f, file=BASE)
    if not rec_ok:
        ctx.violation('C19.R4', BASE, f, Model.qual(f), 'an imported name is no longer resolved in the module it is imported from', stmt='recursion through exporter')
    ctx.instance('C19.R4', 'lookup_in_modules: only modules that list the name are followed', 'ok' if imp_ok else 'VIOLATION', node=f, file=BASE)
    if not imp_ok:
        ctx.violation('C19.R4', BASE, f, Model.qual(f), 'import lists are no longer honoured', stmt='name not in imports')

    # ---- R6: a lookup returns (what was found, the module it was found in).  Whatever is taken out of the found descriptor (its 'type', its members,
    #      its parameters) must be resolved further *in the module it was found in*: a call that is handed something derived from the found descriptor
    #      together with the module the lookup started from looks the next name up in the wrong module -- invisible while everything lives in one module.
    ctx.rule('C19.R6', 'names taken from a looked-up descriptor are resolved in the module the lookup returned, not the module it started from')
    n6 = 0
    pair_lookups = set()
    base_cls = model.cls(BASE, 'Compiler')
    for nm, g_ in base_cls.methods.items():
        rets = [r_ for r_ in walk_no_nested(g_) if isinstance(r_, ast.Return) and r_.value is not None]
        if nm.startswith('lookup_') and rets:
            pair_lookups.add(nm)
    if len(pair_lookups) < 4:
        raise AnalysisError('C19.R6: only %d lookup functions found in %s' % (len(pair_lookups), BASE))
    for m_ in model.modules.values():
        if not m_.rel.startswith('asn1tools/codecs/') and m_.rel != 'asn1tools/compiler.py':
            continue
        for g_ in [n for n in ast.walk(m_.tree) if isinstance(n, ast.FunctionDef)]:
            for a_ in walk_no_nested(g_):
                if not (isinstance(a_, ast.Assign) and isinstance(a_.value, ast.Call) and isinstance(a_.value.func, ast.Attribute)
                        and a_.value.func.attr in pair_lookups and len(a_.targets) == 1):
                    continue
                call = a_.value
                tgt = a_.targets[0]
                if isinstance(tgt, ast.Name):
                    # result = lookup(...);  X, M = result
                    un = [b_ for b_ in walk_no_nested(g_) if isinstance(b_, ast.Assign) and isinstance(b_.value, ast.Name) and b_.value.id == tgt.id
                          and isinstance(b_.targets[0], ast.Tuple) and len(b_.targets[0].elts) == 2 and b_.lineno > a_.lineno]
                    if not un:
                        continue
                    tgt = un[0].targets[0]
                if not (isinstance(tgt, ast.Tuple) and len(tgt.elts) == 2 and all(isinstance(e_, ast.Name) for e_ in tgt.elts)):
                    continue
                found, found_mod = tgt.elts[0].id, tgt.elts[1].id
                start_mods = [x.id for x in call.args[1:] if isinstance(x, ast.Name)] + [k.value.id for k in call.keywords if isinstance(k.value, ast.Name)]
                start_mods = [x for x in start_mods if x != found_mod and 'module' in x]
                if found == '_' or not start_mods:
                    continue       # descriptor dropped, or the module variable is re-bound by the lookup itself
                n6 += 1
                bad = None
                for c_ in walk_no_nested(g_):
                    if not (isinstance(c_, ast.Call) and c_ is not call and getattr(c_, 'lineno', 0) >= a_.lineno):
                        continue
                    argv = list(c_.args) + [k.value for k in c_.keywords]
                    derived = [x for x in argv if found in names_in(x)]
                    wrong = [x for x in argv if isinstance(x, ast.Name) and x.id in start_mods]
                    if derived and wrong and not any(isinstance(x, ast.Name) and x.id == found_mod for x in argv):
                        # error messages may name the starting module
                        fn_ = ast.unparse(c_.func)
                        if fn_.endswith('.format') or fn_ in ('CompileError', 'format') or fn_.endswith('Error'):
                            continue
                        bad = c_
                        break
                ctx.instance('C19.R6', '%s: `%s, %s = %s(...)` -- what is taken from `%s` is resolved with `%s`' % (Model.qual(g_), found, found_mod, call.func.attr, found, found_mod),
                             'ok' if bad is None else 'VIOLATION', node=a_, file=m_.rel)
                if bad is not None:
                    ctx.violation('C19.R6', m_.rel, bad, Model.qual(g_),
                                  '`%s` hands on something taken from the descriptor `%s` (found by %s in module `%s`) together with `%s`, the module the lookup started from: the next '
                                  'reference is looked up in the referring module instead of the defining one, so a chain of references that crosses a module boundary resolves '
                                  'differently from the same definitions written in one module' % (ast.unparse(bad)[:110], found, call.func.attr, found_mod, start_mods[0]),
                                  stmt=norm_stmt(Model.enclosing_stmt(bad)))
    # a resolver (resolve_type_descriptor, ...) follows references across modules and returns the descriptor only: the module it ended in is lost, so nothing taken from its
    # result may be handed on together with the starting module to something that looks names up
    n6r = 0
    for g_ in base_cls.methods.values():
        for a_ in walk_no_nested(g_):
            if not (isinstance(a_, ast.Assign) and isinstance(a_.targets[0], ast.Name) and isinstance(a_.value, ast.Call) and isinstance(a_.value.func, ast.Attribute)
                    and a_.value.func.attr.startswith('resolve_') and isinstance(a_.value.func.value, ast.Name) and a_.value.func.value.id == 'self'):
                continue
            found = a_.targets[0].id
            start_mods = [x.id for x in a_.value.args if isinstance(x, ast.Name) and 'module' in x.id]
            if not start_mods:
                continue
            n6r += 1
            bad = None
            for c_ in walk_no_nested(g_):
                if not (isinstance(c_, ast.Call) and c_ is not a_.value and getattr(c_, 'lineno', 0) >= a_.lineno and isinstance(c_.func, ast.Attribute)
                        and isinstance(c_.func.value, ast.Name) and c_.func.value.id == 'self'):
                    continue
                argv = list(c_.args) + [k.value for k in c_.keywords]
                if any(found in names_in(x) for x in argv) and any(isinstance(x, ast.Name) and x.id in start_mods for x in argv):
                    bad = c_
                    break
            ctx.instance('C19.R6', '%s: `%s = %s(...)` -- nothing taken from `%s` is looked up further in `%s`' % (Model.qual(g_), found, a_.value.func.attr, found, start_mods[0]),
                         'ok' if bad is None else 'VIOLATION', node=a_, file=BASE)
            if bad is not None:
                ctx.violation('C19.R6', BASE, bad, Model.qual(g_),
                              '`%s` hands on something taken from `%s`, which %s resolved through references and IMPORTS (possibly into another module) without telling where it ended, '
                              'together with `%s`, the module the resolution started from: names inside the resolved type are then looked up in the referring module instead of the defining '
                              'one' % (ast.unparse(bad)[:110], found, a_.value.func.attr, start_mods[0]), stmt=norm_stmt(Model.enclosing_stmt(bad)))
    if n6 + n6r < 3:
        raise AnalysisError('C19.R6 examined only %d lookups / resolutions (floor 3)' % (n6 + n6r))
    # the same for what is *remembered*: a container that was selected with the starting module (cache.setdefault(module_name, {}), self.compiled[module_name]) before a
    # lookup re-bound the module variable belongs to the starting module; a name taken from the descriptor the lookup found may live in another module, and filing it there
    # gives the starting module's own, different type of that name the remembered answer.
    n6b = 0
    for g_ in base_cls.methods.values():
        gparams = [p_ for p_ in flow.param_names(g_) if 'module' in p_]
        if not gparams:
            continue
        for a_ in walk_no_nested(g_):
            if not (isinstance(a_, ast.Assign) and isinstance(a_.value, ast.Call) and isinstance(a_.value.func, ast.Attribute) and a_.value.func.attr in pair_lookups
                    and isinstance(a_.targets[0], ast.Tuple) and len(a_.targets[0].elts) == 2 and all(isinstance(e_, ast.Name) for e_ in a_.targets[0].elts)):
                continue
            found, found_mod = a_.targets[0].elts[0].id, a_.targets[0].elts[1].id
            if found_mod not in gparams:
                continue           # the other form (two module variables) is handled above
            # containers selected with the module parameter before the lookup
            home = {b_.targets[0].id for b_ in walk_no_nested(g_) if isinstance(b_, ast.Assign) and isinstance(b_.targets[0], ast.Name) and b_.lineno < a_.lineno
                    and found_mod in names_in(b_.value) and (isinstance(b_.value, ast.Subscript) or (isinstance(b_.value, ast.Call) and isinstance(b_.value.func, ast.Attribute)
                                                                                                       and b_.value.func.attr in ('setdefault', 'get')))}
            if not home:
                continue
            n6b += 1
            # names that carry something taken from the found descriptor (transitively: assigned from it, appended to a list, iterated over)
            foreign = {found}
            grew = True
            while grew:
                grew = False
                for b_ in walk_no_nested(g_):
                    if isinstance(b_, ast.Assign) and b_.lineno >= a_.lineno and names_in(b_.value) & foreign:
                        for t_ in b_.targets:
                            for x_ in flow.target_names(t_):
                                if x_ not in foreign and x_ not in home:
                                    foreign.add(x_)
                                    grew = True
                    elif isinstance(b_, ast.Call) and isinstance(b_.func, ast.Attribute) and b_.func.attr in ('append', 'add', 'extend', 'insert') and isinstance(b_.func.value, ast.Name) \
                            and any(names_in(x_) & foreign for x_ in b_.args) and b_.func.value.id not in foreign and b_.func.value.id not in home:
                        foreign.add(b_.func.value.id)
                        grew = True
                    elif isinstance(b_, (ast.For, ast.comprehension)) and names_in(b_.iter) & foreign:
                        for x_ in flow.target_names(b_.target):
                            if x_ not in foreign:
                                foreign.add(x_)
                                grew = True
            bad = None
            for b_ in walk_no_nested(g_):
                if isinstance(b_, ast.Assign):
                    for t_ in b_.targets:
                        if isinstance(t_, ast.Subscript) and isinstance(t_.value, ast.Name) and t_.value.id in home and names_in(t_.slice) & foreign:
                            bad = b_
                elif isinstance(b_, ast.Call) and isinstance(b_.func, ast.Attribute) and b_.func.attr in ('append', 'add', 'setdefault', 'update') and isinstance(b_.func.value, ast.Name) \
                        and b_.func.value.id in home and any(names_in(x_) & foreign for x_ in b_.args):
                    bad = b_
            ctx.instance('C19.R6', '%s: %s selected with `%s` before `%s, %s = %s(...)`' % (Model.qual(g_), sorted(home), found_mod, found, found_mod, a_.value.func.attr),
                         'ok' if bad is None else 'VIOLATION', node=a_, file=BASE)
            if bad is not None:
                ctx.violation('C19.R6', BASE, bad, Model.qual(g_),
                              '`%s` files a name taken from a descriptor that %s found - possibly in another module - in %s, which was selected with the module the lookup started from: the '
                              'starting module\'s own type of that name gets the answer remembered for the other module\'s type (a tagged use of it is given the wrong EXPLICIT / IMPLICIT kind)'
                              % (norm_stmt(bad), a_.value.func.attr, sorted(home)[0]), stmt='name of another module filed under the starting module')

    # ---- R5
    def key_chain(e):
        """keys used from self.compiled down to the innermost element: subscripts and .setdefault(k, ..)/.get(k) calls"""
        if isinstance(e, ast.Subscript):
            r_ = key_chain(e.value)
            return None if r_ is None else r_ + [sem.ctext(e.slice)]
        if isinstance(e, ast.Call) and isinstance(e.func, ast.Attribute) and e.func.attr in ('setdefault', 'get') and e.args:
            r_ = key_chain(e.func.value)
            return None if r_ is None else r_ + [sem.ctext(e.args[0])]
        if isinstance(e, ast.Attribute) and isinstance(e.value, ast.Name) and e.value.id == 'self' and e.attr == 'compiled':
            return []
        return None
    g = model.func(BASE, 'Compiler.get_compiled_type')       # (name, type_name, module_name) = ARG0..2
    s_ = model.func(BASE, 'Compiler.set_compiled_type')      # (name, type_name, module_name, compiled) = ARG0..3
    gps = sem.paths(g, positional=True) or []
    sps = sem.paths(s_, positional=True) or []
    want = ['ARG2', 'ARG1', 'ARG0']
    got_get = [key_chain(p.outcome[3]) for p in gps if p.outcome[0] == 'return' and len(p.outcome) > 3 and key_chain(p.outcome[3]) is not None]
    got_set = []
    for p in sps:
        for ev in p.events:
            if ev[0] == 'store' and len(ev) > 3 and ev[3] is not None and sem.ctext(ev[3]) == 'ARG3':
                for t_ in (ev[2].targets if isinstance(ev[2], ast.Assign) else []):
                    kc = key_chain(sem.subst(t_, {k: v for k, v in p.env.items() if isinstance(v, ast.AST)}))
                    if kc is not None:
                        got_set.append(kc)
    ok = bool(got_get) and all(k == want for k in got_get) and bool(got_set) and all(k == want for k in got_set)
    ctx.instance('C19.R5', 'compiled-type cache keyed by [module_name][type_name][name] (get %s / set %s)' % (got_get[:1], got_set[:1]), 'ok' if ok else 'VIOLATION', node=g, file=BASE)
    if not ok:
        ctx.violation('C19.R5', BASE, g, Model.qual(g), 'the compiled-type cache key changed: objects of different types/modules/member names may be confused', stmt='cache key')
    cu = model.func(BASE, 'Compiler.compile_user_type')
    cps = sem.paths(cu, positional=True) or []
    texts = {ev[1] for p in cps for ev in p.events if ev[0] == 'call'}
    ok = 'self.get_compiled_type(ARG0, ARG1, ARG2)' in texts and any(t_.startswith('self.set_compiled_type(ARG0, ARG1, ARG2, ') for t_ in texts)
    ctx.instance('C19.R5', 'compile_user_type reads and fills the cache under the same key', 'ok' if ok else 'VIOLATION', node=cu, file=BASE)
    if not ok:
        ctx.violation('C19.R5', BASE, cu, Model.qual(cu), 'compile_user_type uses different keys to read and fill the cache', stmt='cache read/fill key')
    # the type descriptor looked up for the reference comes with *its* module name
    ok = any('*self.lookup_type_descriptor(ARG1, ARG2)' in t_ and t_.startswith('self.compile_type(') for t_ in texts)
    if not ok:
        # the unpacked form:  d, m = self.lookup_type_descriptor(type_name, module_name);  self.compile_type(name, d, m)
        cparams = [p_ for p_ in flow.param_names(cu) if p_ != 'self']
        for a_ in walk_no_nested(cu):
            if isinstance(a_, ast.Assign) and isinstance(a_.targets[0], ast.Tuple) and len(a_.targets[0].elts) == 2 and all(isinstance(e_, ast.Name) for e_ in a_.targets[0].elts) \
                    and isinstance(a_.value, ast.Call) and sem.callee_name(a_.value) == 'lookup_type_descriptor' and len(cparams) >= 3 \
                    and [ast.unparse(x_) for x_ in a_.value.args] == cparams[1:3]:
                d_, m_ = (e_.id for e_ in a_.targets[0].elts)
                rebinds = [b_ for b_ in walk_no_nested(cu) if isinstance(b_, ast.Name) and isinstance(b_.ctx, ast.Store) and b_.id in (d_, m_)]
                for c_ in walk_no_nested(cu):
                    if isinstance(c_, ast.Call) and sem.callee_name(c_) == 'compile_type' and len(c_.args) == 3 and [ast.unparse(x_) for x_ in c_.args[1:]] == [d_, m_] and len(rebinds) == 2:
                        ok = True
    ctx.instance('C19.R5', 'compile_user_type compiles the referenced descriptor in its defining module', 'ok' if ok else 'VIOLATION', node=cu, file=BASE)
    if not ok:
        ctx.violation('C19.R5', BASE, cu, Model.qual(cu), 'the referenced type is not compiled in the module that defines it', stmt='defining module')
    sp = model.func(COMP, 'Specification.__init__')
    sps = sem.paths(sp)
    ok = None
    if sps is not None:
        body = [p for p in sem.with_loop_bodies(sps)]
        inserts, deletes, skips = [], [], []
        for p in body:
            st_ins = [ev for ev in p.events if ev[0] == 'store' and ev[1].startswith('self._types[') and ' = ' in ev[1]]
            st_del = [ev for ev in p.events if ev[0] == 'store' and ev[1].startswith('del self._types[')]
            adds = [ev for ev in p.events if ev[0] == 'call' and sem.callee_name(ev[2]) == 'add']
            if st_ins:
                inserts.append((p, st_ins))
            if st_del:
                deletes.append((p, st_del, adds))
        if inserts and deletes:
            ok = True
            # the set that remembers the removed names
            dsets = {sem.ctext(ev[3].func.value) for _p, _d, adds in deletes for ev in adds}
            if len(dsets) != 1:
                ok = False
            else:
                dset = list(dsets)[0]
                for p, st_del, adds in deletes:
                    if not adds:
                        ok = False
                    if not any(c[1] and c[0].endswith(' in self._types') for c in p.conds):
                        ok = False
                # a name met for the second time is dropped on *every* path: keeping the definition met first (under whatever condition) makes the
                # result depend on the order of the modules
                for p in body:
                    if any(c[1] and c[0].endswith(' in self._types') for c in p.conds) and not any(ev[0] == 'store' and ev[1].startswith('del self._types[') for ev in p.events):
                        ok = False
                for p, st_ins in inserts:
                    lits = {(c[0], c[1]) for c in p.conds}
                    if not any(t_.endswith(' in ' + dset) and not pol for t_, pol in lits) or not any(t_.endswith(' in self._types') and not pol for t_, pol in lits):
                        ok = False
    ctx.instance('C19.R5', 'Specification.types drops duplicated names regardless of module order', 'ok' if ok else ('undecided' if ok is None else 'VIOLATION'), nontrivial=ok is not None, node=sp, file=COMP)
    if ok is False:
        ctx.violation('C19.R5', COMP, sp, Model.qual(sp), 'duplicate handling of Specification.types became order-dependent', stmt='duplicates')

    # ---- R7: a constraint written at a reference re-configures the copy of the referenced type (set_size_range / set_restricted_to_range are called again); what the
    #      constructor derived from the first constraint must be derived again there, or `code Code (SIZE (2))` behaves differently from `code IA5String (SIZE (2))`
    #      (sa/siblings.py stale_derived_attributes, shared with C05.R13 / C06.R12)
    ctx.rule('C19.R7', 'no attribute is derived in __init__ alone from a parameter that a set_* method re-configures for a constrained reference')
    from .. import siblings as _sib19
    n_ctor19, stale19 = _sib19.stale_derived_attributes(model, ['asn1tools/codecs/%s.py' % c_ for c_ in ('ber', 'der', 'per', 'uper', 'oer', 'jer', 'xer', 'gser')])
    ctx.instance('C19.R7', '%d constructors hand parameters to a set_* method; attributes derived from those parameters outside the setter: %d' % (n_ctor19, len(stale19)),
                 'ok' if not stale19 else 'VIOLATION', nontrivial=n_ctor19 > 0)
    for c_, ini_, a_, attr_, used_, setter_ in stale19:
        ctx.violation('C19.R7', c_.mod.rel, a_, Model.qual(ini_),
                      '`%s` is computed from %s in the constructor only; %s(), which the compiler calls on the copy of a referenced type when the reference carries its own constraint, sets '
                      'the same parameter(s) anew without refreshing self.%s: the constrained reference is encoded differently from the same constraint written inline'
                      % (norm_stmt(a_), ', '.join(used_), setter_, attr_), stmt='derived attribute not refreshed by %s' % setter_)


BER = 'asn1tools/codecs/ber.py'
MUTANTS = [
    dict(name='compile_member: size configured without its own copy', file=BASE, quick=True,
         old="""        if 'size' in member:
            compiled_member = self.copy(compiled_member)
            compiled_member.set_size_range""",
         new="""        if 'size' in member:
            compiled_member.set_size_range""", expect='C19.R1a'),
    dict(name='ber compile_type sets the tag without copying', file=BER, quick=True,
         old="""        if 'tag' in type_descriptor:
            compiled = self.copy(compiled)
            tag = type_descriptor['tag']""",
         new="""        if 'tag' in type_descriptor:
            tag = type_descriptor['tag']""", expect='C19.R1a'),
    dict(name='per set_size_range writes through a shared attribute', file='asn1tools/codecs/per.py', quick=True,
         old="""    def set_size_range(self, minimum, maximum, has_extension_marker):
        self.minimum = minimum
        self.maximum = maximum
        self.has_extension_marker = has_extension_marker

        if is_unbound(minimum, maximum):
            self.number_of_bits = None
        else:
            size = maximum - minimum""",
         new="""    def set_size_range(self, minimum, maximum, has_extension_marker):
        self.minimum = minimum
        self.maximum = maximum
        self.has_extension_marker = has_extension_marker
        self.permitted_alphabet.encode_map.update({})

        if is_unbound(minimum, maximum):
            self.number_of_bits = None
        else:
            size = maximum - minimum""", expect='C19.R1b'),
    dict(name='ExplicitTag.set_default without copying the inner type', file=BER,
         old="""        self.inner = copy(self.inner)
        self.inner.set_default(value)""", new="""        self.inner.set_default(value)""", expect='C19.R1b'),
    dict(name='lookup prefers imports over the own module', file=BASE,
         old="""        if name in module[section]:
            return module[section][name], module_name
        else:
            for from_module_name, imports in module['imports'].items():""",
         new="""        if name in module[section] and not module['imports']:
            return module[section][name], module_name
        else:
            for from_module_name, imports in module['imports'].items():""", expect='C19.R4'),
    dict(name='compiled-type cache ignores the member name', file=BASE,
         old="            return self.compiled[module_name][type_name][name]", new="            return self.compiled[module_name][type_name]['']", expect='C19.R5'),
]
REFACTORS = [
    dict(name='copy via copy() directly', file=BASE, quick=True,
         old="""        if 'size' in member:
            compiled_member = self.copy(compiled_member)""",
         new="""        if 'size' in member:
            compiled_member = copy(compiled_member)"""),
]
MUTANTS.append(dict(name='COMPONENTS OF members expanded in the referring module instead of the defining one', file=BASE,
                    old="""                inner_members = self.pre_process_components_of_expand_members(
                    type_descriptor['members'],
                    inner_module_name)""", new="""                inner_members = self.pre_process_components_of_expand_members(
                    type_descriptor['members'],
                    module_name)""", expect='C19.R6'))

MUTANTS.append(dict(name='a type name defined identically in several modules keeps the first definition', file=COMP,
                    old="""                if type_name in self._types:
                    del self._types[type_name]
                    duplicated.add(type_name)
                    continue""", new="""                if type_name in self._types:
                    if self._types[type_name] is not type_:
                        del self._types[type_name]
                        duplicated.add(type_name)
                    continue""", expect='C19.R5'))
