"""C18 -- a compiled specification is stateless across calls and threads (DESIGN.md section 4 C18)."""
import ast

from ..model import AnalysisError, Model, walk_no_nested, norm_stmt
from ..callgraph import CallGraph
from .. import flow, effects

LEVEL = 'other'
EXPLANATION = (
    'Sufficient condition decided by effect analysis: no method reachable from a runtime entry point '
    '(Specification.encode/decode/decode_with_length/decode_length, every CompiledType.encode/decode/decode_with_length/'
    'check_types/check_constraints, every type-checker and constraints-checker encode) stores to, deletes from or calls a '
    'mutator on an object that outlives the call: attributes of self (other than per-call scratch classes Encoder/Decoder and '
    'exception objects), module-level objects, class attributes, or the caller-supplied input.  Interprocedural summaries '
    '(which parameters/receiver a function may mutate; whether its result is fresh) are solved to a fixpoint over the '
    'name-resolved call graph.  With no shared write, each call is a function of its arguments and the immutable compiled graph '
    'for every history and every thread interleaving.  Also: per-call scratch objects are allocated inside the entry points (R2); '
    'no global/nonlocal and no class-attribute stores (R3); the input object is not modified (R4); Recursive linking and '
    'Choice.add_tags are reachable only at compile time (R5).  Not decided: aliasing of returned DEFAULT objects by the caller.')
ASSUMPTIONS = ['name-based call resolution inside a codec family over-approximates the real callees',
               'standard-library callees (struct, binascii, json, ElementTree, datetime) do not keep shared state',
               'CPython reads of objects that are never written after compilation are thread-safe']
TRUSTED = ['CPython ast', 'sa/model.py', 'sa/callgraph.py (call resolution, light field-type inference)', 'sa/effects.py (fresh/alias classification, summaries)']

CODECS = ['ber', 'der', 'per', 'uper', 'oer', 'jer', 'xer', 'gser']
ENTRY_CLASSES = ('CompiledType', 'CompiledOpenTypes', 'Specification')
ENTRY_NAMES = ('encode', 'decode', 'decode_with_length', 'decode_length', 'check_types', 'check_constraints')


def runtime_roots(model):
    roots = []
    for m in model.modules.values():
        if not m.rel.startswith('asn1tools/codecs/') and m.rel != 'asn1tools/compiler.py':
            continue
        for c in m.classes.values():
            if c.name in ENTRY_CLASSES:
                for n, f in c.methods.items():
                    if n in ENTRY_NAMES:
                        roots.append(f)
        if m.rel.endswith('type_checker.py') or m.rel.endswith('constraints_checker.py'):
            # reached through CompiledType.check_types/check_constraints (self.type_checker.encode):
            # the receiver is attached in Specification.__init__, so name resolution cannot see it
            for c in m.classes.values():
                if 'encode' in c.methods:
                    roots.append(c.methods['encode'])
        if 'decode_full_length' in m.functions:
            roots.append(m.functions['decode_full_length'])
    if len(roots) < 40:
        raise AnalysisError('only %d runtime entry points found' % len(roots))
    return roots


def check(ctx):
    model = ctx.model
    cg = CallGraph(model)
    roots = runtime_roots(model)
    reach = cg.reachable(roots)
    eff = effects.Purity(model, cg)
    ctx.extra['runtime_entry_points'] = len(roots)
    ctx.extra['runtime_reachable_functions'] = len(reach)
    ctx.extra['functions_in_repo'] = len(eff.funcs)

    ctx.rule('C18.R1', 'no runtime-reachable method writes an attribute of self / a module-level object (interprocedural effect summaries)')
    ctx.rule('C18.R2', 'per-call scratch (Encoder, Decoder, bytearray, dict, Element) is freshly allocated inside each entry point, never stored on self')
    ctx.rule('C18.R3', 'no global/nonlocal statement; no store to a class attribute or module-level name from a function')
    ctx.rule('C18.R4', 'the caller-supplied input (data) is never stored through or mutated, directly or via a callee')
    ctx.rule('C18.R5', 'Recursive.set_inner_type / Choice.add_tags / choice_parents are reachable only from compile time')

    # ---- R0: the receiver hints used by the call graph are true of the current tree
    ctx.rule('C18.R0', 'bridge assumptions of the call graph: every process_type() returns CompiledType(...); Specification receives compile_dict() results')
    for m in model.modules.values():
        for c in m.classes.values():
            g = c.methods.get('process_type')
            if g is None:
                continue
            rets = [n for n in walk_no_nested(g) if isinstance(n, ast.Return) and n.value is not None]
            if rets and all('NotImplementedError' in ast.unparse(r.value) for r in rets):
                continue      # abstract base
            def returned_class(fn, c=c, m=m):
                """name of the class a returned constructor call builds: Name(..), module.Name(..) or self.<CLASS ATTRIBUTE>(..)"""
                if isinstance(fn, ast.Attribute) and isinstance(fn.value, ast.Name) and fn.value.id in ('self', 'cls'):
                    names = set()
                    for k in [c] + c.subclasses(model):
                        r_ = k.find_attr(fn.attr)
                        if r_ is None:
                            return None
                        t = r_[0].mod.resolve(r_[1]) if isinstance(r_[1], (ast.Name, ast.Attribute)) else None
                        names.add(getattr(t, 'name', None))
                    return names.pop() if len(names) == 1 else None
                return ast.unparse(fn).split('.')[-1]
            ok = bool(rets) and all(isinstance(r.value, ast.Call) and returned_class(r.value.func) in ('CompiledType', 'CompiledOpenTypes')
                                    for r in rets)
            ctx.instance('C18.R0', Model.qual(g), 'ok' if ok else 'ANALYSIS', node=g, file=m.rel)
            if not ok:
                raise AnalysisError('%s no longer returns CompiledType(...): the receiver hint for Specification is stale' % Model.qual(g))
    ctx.floor('C18.R0', 8)

    # ---- R1 / R4 on every reachable function
    entry = set(roots)
    for f in sorted(reach, key=lambda g: (g._mod.rel, g.lineno)):
        rel = f._mod.rel
        is_entry = f in entry and getattr(f, '_cls', None) is not None and f._cls.name in ENTRY_CLASSES
        inputs = ()
        if is_entry or f in entry:
            inputs = tuple(p for p in flow.param_names(f) if p in ('data', 'decoded'))
        probs = eff.check_function(f, input_params=inputs)
        r1 = [(n, w) for n, w in probs if 'caller-supplied input' not in w]
        r4 = [(n, w) for n, w in probs if 'caller-supplied input' in w]
        ctx.instance('C18.R1', Model.qual(f), 'pure' if not r1 else 'VIOLATION', nontrivial=eff.had_stores(f), node=f, file=rel)
        for node, why in r1:
            ctx.violation('C18.R1', rel, node, Model.qual(f), why + ' -- state written during a call outlives it and is visible to other calls/threads',
                          extra={'entry_path': cg.path(roots, f)})
        if inputs:
            ctx.instance('C18.R4', '%s input %s' % (Model.qual(f), ','.join(inputs)), 'untouched' if not r4 else 'VIOLATION', node=f, file=rel)
            for node, why in r4:
                ctx.violation('C18.R4', rel, node, Model.qual(f), why + ' -- the object passed to encode() is modified')
    if len(reach) < 400:
        raise AnalysisError('C18.R1 reached only %d functions (floor 400)' % len(reach))

    # ---- R2 scratch freshness at entry points of the CompiledType classes
    n2 = 0
    for name in CODECS:
        m = model.mod('asn1tools/codecs/%s.py' % name)
        c = m.classes.get('CompiledType')
        if c is None:
            continue
        for mn in ('encode', 'decode', 'decode_with_length'):
            f = c.methods.get(mn)
            if f is None:
                continue
            # every argument passed to self._type.<m>(...) besides `data` must be fresh
            for call in [n for n in walk_no_nested(f) if isinstance(n, ast.Call)]:
                fn = call.func
                if isinstance(fn, ast.Attribute) and ast.unparse(fn.value) == 'self._type':
                    for a in call.args:
                        r = eff.roots(a, f)
                        kinds = {x for x in r}
                        if isinstance(a, ast.Name) and a.id in flow.param_names(f):
                            continue      # caller-supplied value/configuration, not scratch
                        if isinstance(a, ast.Constant):
                            continue
                        ok = kinds <= {'fresh'}
                        n2 += 1
                        ctx.instance('C18.R2', '%s arg %s' % (Model.qual(f), ast.unparse(a)), 'fresh' if ok else 'VIOLATION', node=call, file=m.rel)
                        if not ok:
                            ctx.violation('C18.R2', m.rel, call, Model.qual(f),
                                          'scratch argument %s of %s is not a fresh per-call allocation (roots: %s): concurrent or '
                                          'consecutive calls share it' % (ast.unparse(a), ast.unparse(fn), sorted(kinds)))
    ctx.floor('C18.R2', 6)

    # ---- R3
    n3 = 0
    for f in model.all_functions():
        for n in walk_no_nested(f):
            if isinstance(n, (ast.Global, ast.Nonlocal)):
                n3 += 1
                if f in reach:
                    ctx.violation('C18.R3', f._mod.rel, n, Model.qual(f), 'global/nonlocal declaration in a runtime-reachable function')
            tgs = []
            if isinstance(n, ast.Assign):
                tgs = n.targets
            elif isinstance(n, (ast.AugAssign, ast.AnnAssign)):
                tgs = [n.target]
            for t in tgs:
                if isinstance(t, ast.Attribute):
                    base = t.value
                    # ClassName.attr = ... / self.__class__.attr = ... / type(self).attr = ...
                    src = ast.unparse(base)
                    r = f._mod.resolve(base) if isinstance(base, (ast.Name, ast.Attribute)) else None
                    from ..model import ClassInfo, Module
                    if isinstance(r, (ClassInfo, Module)) or src.endswith('.__class__') or src.startswith('type('):
                        n3 += 1
                        if f in reach:
                            ctx.violation('C18.R3', f._mod.rel, n, Model.qual(f), 'store to class/module attribute %s at run time' % ast.unparse(t))
    ctx.instance('C18.R3', 'all %d functions scanned for global/nonlocal/class-attribute stores (%d found, none runtime-reachable unless reported)'
                 % (len(eff.funcs), n3), 'ok')

    # ---- R5 compile-time-only mutators
    ct = []
    for m in model.modules.values():
        for c in m.classes.values():
            for mn in ('set_inner_type', 'add_tags', 'set_default', 'set_tag', 'set_size_range', 'set_restricted_to_range'):
                if mn in c.methods:
                    ct.append(c.methods[mn])
    for f in ct:
        bad = f in reach
        ctx.instance('C18.R5', Model.qual(f), 'compile-time only' if not bad else 'VIOLATION', node=f, file=f._mod.rel)
        if bad:
            ctx.violation('C18.R5', f._mod.rel, f, Model.qual(f),
                          'configuration mutator %s is reachable from a runtime entry point: %s' % (f.name, ' -> '.join(cg.path(roots, f) or [])))
    ctx.floor('C18.R5', 20)

    # ---- R6: memoisation is state that outlives the call.  A memoised function (functools.lru_cache / cache, or a decorator of the package that keeps results) hands the *same*
    #      object to every later caller: that is invisible only when the object is immutable.  A list / bytearray / dict result is shared - the first caller that extends it in
    #      place (`encoded += ...`) changes what every later call returns.
    ctx.rule('C18.R6', 'a memoised function returns immutable objects only (a cached list / bytearray / dict is shared, mutable state between calls)')
    MEMO = ('lru_cache', 'cache', 'cached', 'memoize', 'memoized', 'memo')
    n6 = 0
    n_funcs = 0
    for m in model.modules.values():
        if not m.rel.startswith('asn1tools/'):
            continue
        for f in [x_ for x_ in ast.walk(m.tree) if isinstance(x_, ast.FunctionDef)]:
            n_funcs += 1
            decos = []
            for d_ in f.decorator_list:
                t_ = d_.func if isinstance(d_, ast.Call) else d_
                nm_ = t_.attr if isinstance(t_, ast.Attribute) else (t_.id if isinstance(t_, ast.Name) else '')
                if nm_ in MEMO:
                    decos.append(nm_)
            if not decos:
                continue
            n6 += 1
            mutable = None
            local_mut = {a_.targets[0].id for a_ in walk_no_nested(f) if isinstance(a_, ast.Assign) and isinstance(a_.targets[0], ast.Name)
                         and (isinstance(a_.value, (ast.List, ast.ListComp, ast.Dict, ast.DictComp, ast.Set, ast.SetComp))
                              or (isinstance(a_.value, ast.Call) and isinstance(a_.value.func, ast.Name) and a_.value.func.id in ('list', 'dict', 'set', 'bytearray')))}
            for r_ in walk_no_nested(f):
                if isinstance(r_, ast.Return) and r_.value is not None:
                    v_ = r_.value
                    if isinstance(v_, ast.Subscript) and isinstance(v_.slice, ast.Slice):
                        v_ = v_.value          # a slice of a list is a list
                    if isinstance(v_, (ast.List, ast.ListComp, ast.Dict, ast.DictComp, ast.Set, ast.SetComp)) or (isinstance(v_, ast.Name) and v_.id in local_mut) \
                            or (isinstance(v_, ast.Call) and isinstance(v_.func, ast.Name) and v_.func.id in ('list', 'dict', 'set', 'bytearray')):
                        mutable = r_
            ctx.instance('C18.R6', '%s (@%s)' % (Model.qual(f), decos[0]), 'returns immutable objects' if mutable is None else 'VIOLATION', node=f, file=m.rel)
            if mutable is not None:
                ctx.violation('C18.R6', m.rel, mutable, Model.qual(f),
                              'the function is memoised (@%s) and returns a mutable object (`%s`): every caller receives the same object, so a caller that extends it in place changes the '
                              'result of all later calls with the same argument - the second encoding of the same value differs from the first' % (decos[0], norm_stmt(mutable)),
                              stmt='memoised function returns a mutable object')
    # ---- R7: what a decoder puts into its result is the caller's to modify.  The DEFAULT value of a member lives on the compiled type; a decoder that fills in an absent
    #      member hands out a copy (get_default() copies), never the attribute itself -- the default of a SEQUENCE OF is a list, and a caller that appends to the decoded
    #      list would change every later decode.
    ctx.rule('C18.R7', 'decoders fill in an absent DEFAULT member with a copy of the default (through get_default(), which copies), never with the object kept on the compiled type')
    bt = model.mod('asn1tools/codecs/__init__.py').classes.get('BaseType')
    gd = bt.methods.get('get_default') if bt else None
    copies = False
    if gd is not None:
        rets7 = [r_ for r_ in walk_no_nested(gd) if isinstance(r_, ast.Return) and r_.value is not None]
        copies = bool(rets7) and all(isinstance(r_.value, ast.Call) and ast.unparse(r_.value.func).split('.')[-1] in ('deepcopy', 'copy') for r_ in rets7)
    ctx.instance('C18.R7', 'BaseType.get_default returns a copy', 'ok' if copies else 'VIOLATION', node=gd, file='asn1tools/codecs/__init__.py')
    if not copies:
        ctx.violation('C18.R7', 'asn1tools/codecs/__init__.py', gd, Model.qual(gd) if gd is not None else 'BaseType.get_default',
                      'get_default() returns the default object kept on the compiled type: the decoders put it into the decoded value, so for `l SEQUENCE OF INTEGER DEFAULT {}` a caller '
                      'that appends to the decoded list changes what every later decode of an absent `l` returns', stmt='default handed out by reference')
    n7 = 0
    for name in ('ber', 'der', 'per', 'uper', 'oer', 'jer', 'xer'):
        m7 = model.mod('asn1tools/codecs/%s.py' % name)
        for f7 in [x_ for x_ in ast.walk(m7.tree) if isinstance(x_, ast.FunctionDef) and x_.name.startswith('decode')]:
            for a7 in walk_no_nested(f7):
                if isinstance(a7, ast.Assign) and isinstance(a7.targets[0], ast.Subscript):
                    v7 = a7.value
                    direct = isinstance(v7, ast.Attribute) and v7.attr == 'default' and not (isinstance(v7.value, ast.Name) and v7.value.id == 'self')
                    through = isinstance(v7, ast.Call) and isinstance(v7.func, ast.Attribute) and v7.func.attr == 'get_default'
                    if not (direct or through):
                        continue
                    n7 += 1
                    ctx.instance('C18.R7', '%s: %s' % (Model.qual(f7), norm_stmt(a7)), 'VIOLATION' if direct else 'copy through get_default()', node=a7, file=m7.rel)
                    if direct:
                        ctx.violation('C18.R7', m7.rel, a7, Model.qual(f7),
                                      '`%s` puts the default object of the compiled type itself into the decoded value (not get_default(), which copies): the caller shares a mutable '
                                      'object with the specification' % norm_stmt(a7), stmt='default attribute handed out')
    if n7 < 4:
        raise AnalysisError('C18.R7 found only %d places where a decoder fills in a default' % n7)
    # ---- R8: the same for every other mutable object built at compile time: an Element that __init__ keeps on the compiled type is not placed into a result (appended
    #      to the returned element, returned itself): the caller - or the library's own post-processing, indent_xml() - would write into compiled state
    ctx.rule('C18.R8', 'elements built by a constructor of a compiled type are never placed into an encode / decode result')
    n8 = 0
    for name in ('ber', 'der', 'per', 'uper', 'oer', 'jer', 'xer', 'gser'):
        m8 = model.mod('asn1tools/codecs/%s.py' % name)
        for c8 in m8.classes.values():
            ini8 = c8.methods.get('__init__')
            if ini8 is None:
                continue
            built = {}
            for a8 in walk_no_nested(ini8):
                if isinstance(a8, ast.Assign) and isinstance(a8.targets[0], ast.Attribute) and isinstance(a8.targets[0].value, ast.Name) and a8.targets[0].value.id == 'self':
                    if any(isinstance(x_, ast.Call) and ast.unparse(x_.func).split('.')[-1] in ('Element', 'SubElement') for x_ in ast.walk(a8.value)):
                        built[a8.targets[0].attr] = a8
            if not built:
                continue
            for f8 in c8.methods.values():
                if not (f8.name.startswith('encode') or f8.name.startswith('decode')):
                    continue
                for x_ in walk_no_nested(f8):
                    scope = []
                    if isinstance(x_, ast.Call) and isinstance(x_.func, ast.Attribute) and x_.func.attr in ('append', 'extend', 'insert'):
                        scope = list(x_.args)
                    elif isinstance(x_, ast.Return) and x_.value is not None:
                        scope = [x_.value]
                    hit = None
                    for e_ in scope:
                        for y_ in ast.walk(e_):
                            if isinstance(y_, ast.Attribute) and isinstance(y_.value, ast.Name) and y_.value.id == 'self' and y_.attr in built:
                                hit = y_
                    if hit is not None:
                        n8 += 1
                        ctx.instance('C18.R8', '%s places self.%s into its result' % (Model.qual(f8), hit.attr), 'VIOLATION', node=x_, file=m8.rel)
                        ctx.violation('C18.R8', m8.rel, x_, Model.qual(f8),
                                      '`%s` places self.%s, an element built once in __init__, into the result: every result shares that object, and indent_xml() (encode(..., indent=n)) '
                                      'writes its white-space into it - a later call without indentation emits the stale white-space, so the result depends on earlier calls'
                                      % (norm_stmt(Model.enclosing_stmt(x_)), hit.attr), stmt='compile-time element placed into a result')
    ctx.instance('C18.R8', 'compile-time elements placed into results: %d' % n8, 'ok' if n8 == 0 else 'VIOLATION', nontrivial=True)
    ctx.instance('C18.R6', '%d functions of the package examined, %d memoised' % (n_funcs, n6), 'ok', nontrivial=n_funcs > 500)
    if n_funcs < 500:
        raise AnalysisError('C18.R6 saw only %d functions' % n_funcs)


PER = 'asn1tools/codecs/per.py'
BER = 'asn1tools/codecs/ber.py'
JER = 'asn1tools/codecs/jer.py'
MUTANTS = [
    dict(name='get_default hands out the default object itself', file='asn1tools/codecs/__init__.py',
         old="        return deepcopy(self.default)", new="        return self.default", expect='C18.R7'),
    dict(name='PER decoder fills in the default attribute', file='asn1tools/codecs/per.py',
         old="                values[member.name] = member.get_default()", new="                values[member.name] = member.default", expect='C18.R7'),
    dict(name='memoise last index in per.Enumerated.decode', file=PER, quick=True,
         old="""    def decode_unbound(self, decoder):
        decoder.align()
        decoded = []

        for length in decoder.read_length_determinant_chunks():
            for _ in range(length):
                decoded_element = self.element_type.decode(decoder)""",
         new="""    def decode_unbound(self, decoder):
        decoder.align()
        decoded = []
        self._last = decoded

        for length in decoder.read_length_determinant_chunks():
            for _ in range(length):
                decoded_element = self.element_type.decode(decoder)""", expect='C18.R1'),
    dict(name='jer.MembersType.encode pops from the input dict', file=JER, quick=True,
         old="""    def encode(self, data):
        values = {}

        for member in self.members:
            name = member.name
""",
         new="""    def encode(self, data):
        values = {}

        for member in self.members:
            name = member.name
            data.pop('__scratch__', None)
""", expect=['C18.R4', 'C18.R1']),
    dict(name='module-level cache written in ber.decode_length', file=BER, quick=True,
         old="""    try:
        length = encoded[offset]
    except IndexError:
        raise OutOfByteDataError('Ran out of data when trying to read length',""",
         new="""    END_OF_CONTENTS_OCTETS_SEEN[offset] = encoded
    try:
        length = encoded[offset]
    except IndexError:
        raise OutOfByteDataError('Ran out of data when trying to read length',""", expect='C18.R1'),
    dict(name='one Encoder shared on the CompiledType', file=PER,
         old="""    def encode(self, data):
        encoder = Encoder()
""", new="""    def encode(self, data):
        encoder = self._encoder
""", expect=['C18.R1', 'C18.R2']),
    dict(name='ber member values dict kept on self', file=BER,
         old="""        end_offset = None if length is None else offset + length

        values = {}
""", new="""        end_offset = None if length is None else offset + length

        values = self._values
""", expect='C18.R1'),
    dict(name='default list aliased and extended in ber decode', file=BER,
         old="""            if member.has_default():
                values[member.name] = member.get_default()""",
         new="""            if member.has_default():
                values[member.name] = member.get_default()
                member.default_hits.append(offset)""", expect='C18.R1'),
]
REFACTORS = [
    dict(name='local scratch list renamed and extended', file=PER, quick=True,
         old="""    def decode_unbound(self, decoder):
        decoder.align()
        decoded = []

        for length in decoder.read_length_determinant_chunks():
            for _ in range(length):
                decoded_element = self.element_type.decode(decoder)
                decoded.append(decoded_element)

        return decoded""",
         new="""    def decode_unbound(self, decoder):
        decoder.align()
        result = list()

        for length in decoder.read_length_determinant_chunks():
            chunk = [self.element_type.decode(decoder) for _ in range(length)]
            result.extend(chunk)

        return result"""),
]
