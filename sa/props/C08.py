"""C08 -- decoding arbitrary bytes terminates, bounded (structural clauses; DESIGN.md section 4 C08)."""
import ast

from ..model import AnalysisError, Model, walk_no_nested, norm_stmt, names_in
from ..callgraph import CallGraph
from .. import flow, loops, effects, sem, intervals

EXPLANATION = (
    'Progress arguments decided from source shape: (R1) every BER/DER type-level decode call handles the TAG_MISMATCH '
    'sentinel (returned without advancing) by CHECK / RETURN / TAG-SELECTED; (R2) every while loop reachable from a decode '
    'entry point matches a progress template (T-COUNT, T-IDX, T-BOUND, T-READ, T-TLV, T-RETRY) with its obligation; '
    '(R3) every for-loop whose count comes from the wire is bounded by configuration, by a primitive with a constant '
    'bound, by an earlier guarded read of that many bits, or consumes input unconditionally; (R4) no decode-reachable '
    'method writes state that outlives the call; (R5) BER contents are reached only through decode_length whose '
    'missing-data test is present; (R6) exponents of ** are bounded; (R7) the read position only moves forward: interval abstract '
    'interpretation shows every input-dependent amount handed to a consuming Decoder primitive (skip_bits, read_bits, read_bytes, '
    'read_non_negative_binary_integer -- derived from the Decoder classes) to be non-negative, or the primitive never completes on a '
    'negative amount.  Not decided: a bound proportional to the input, recursion depth, JER/XER parsing.')
ASSUMPTIONS = ['a successful BER type-level decode advances the offset by at least the tag and length octets',
               'PER/OER Decoder primitives are guarded (C16.R1)',
               'name-based call resolution inside a codec family',
               'R7: configuration attributes (self.<attr> of a type object) that enter amount arithmetic are non-negative; a value returned by a helper '
               'that is not a Decoder method is not tracked (such an amount is reported as configuration-only, never as a violation)']

BER = 'asn1tools/codecs/ber.py'
DER = 'asn1tools/codecs/der.py'
BIN = ['asn1tools/codecs/ber.py', 'asn1tools/codecs/der.py', 'asn1tools/codecs/per.py',
       'asn1tools/codecs/uper.py', 'asn1tools/codecs/oer.py']
ALL = BIN + ['asn1tools/codecs/jer.py', 'asn1tools/codecs/xer.py', 'asn1tools/codecs/__init__.py',
             'asn1tools/codecs/compiler.py', 'asn1tools/compiler.py', 'asn1tools/compat.py']


def decode_roots(model):
    roots = []
    for rel in ALL:
        if rel not in model.modules:
            continue
        m = model.modules[rel]
        for c in m.classes.values():
            if c.name in ('CompiledType', 'CompiledOpenTypes', 'Specification'):
                for n, f in c.methods.items():
                    if n.startswith('decode'):
                        roots.append(f)
        for n, f in m.functions.items():
            if n == 'decode_full_length':
                roots.append(f)
    if len(roots) < 12:
        raise AnalysisError('only %d decode entry points found' % len(roots))
    return roots


# ------------------------------------------------------------------ R1
def type_level_decode_calls(f):
    """Calls  X.decode(data, offset[, ...])  (>= 2 positional args) in f."""
    out = []
    aliases = loops.decode_aliases(f)
    for n in walk_no_nested(f):
        if isinstance(n, ast.Call) and loops.is_type_decode_call(n, aliases):
            out.append(n)
    return out


def _mentions(node, name):
    return any(isinstance(x, ast.Name) and x.id == name for x in ast.walk(node))


def _strip_not(t):
    while isinstance(t, ast.UnaryOp) and isinstance(t.op, ast.Not):
        t = t.operand
    return t


def sentinel_idiom(call, f):
    """-> (idiom, ok, why).  idiom in CHECK / RETURN / TAG-SELECTED / UNCHECKED"""
    st = Model.enclosing_stmt(call)
    if isinstance(st, ast.Return):
        # returned unchanged?  `return x.decode(...)`  (not indexed, not unpacked)
        if st.value is call:
            return 'RETURN', True, 'returned unchanged to the caller'
        return 'UNCHECKED', False, 'result used inside a return expression'
    # TAG-SELECTED: receiver bound from self.tag_to_*[...]
    recv = call.func.value if isinstance(call.func, ast.Attribute) else None
    if isinstance(call.func, ast.Name):
        # bound-method alias  dec = x.decode ; dec(data, offset): follow to the receiver
        for a in walk_no_nested(f):
            if isinstance(a, ast.Assign) and isinstance(a.value, ast.Attribute) and a.value.attr == 'decode' \
                    and call.func.id in [x for t in a.targets for x in flow.target_names(t)]:
                recv = a.value.value
    if isinstance(recv, ast.Name):
        binds = [a for a in walk_no_nested(f) if isinstance(a, ast.Assign) and recv.id in [x for t in a.targets for x in flow.target_names(t)]]
        if binds and all(isinstance(a.value, ast.Subscript) and ast.unparse(a.value.value).startswith('self.tag_to_') for a in binds):
            return 'TAG-SELECTED', True, 'receiver looked up by the tag found at offset'
    if not (isinstance(st, ast.Assign) and st.value is call):
        return 'UNCHECKED', False, 'result is neither returned unchanged nor bound for a check'
    tg = st.targets[0]
    if isinstance(tg, ast.Tuple) and tg.elts and isinstance(tg.elts[0], ast.Name):
        v = tg.elts[0].id
    elif isinstance(tg, ast.Name):
        v = tg.id
    else:
        return 'UNCHECKED', False, 'cannot follow the result'
    # statements following the assignment (climbing out of try bodies)
    node = st
    following = []
    while True:
        par = getattr(node, '_parent', None)
        if par is None:
            break
        for field in ('body', 'orelse', 'finalbody'):
            seq = getattr(par, field, None)
            if isinstance(seq, list) and node in seq:
                following.extend(seq[seq.index(node) + 1:])
                break
        if isinstance(par, (ast.Try, ast.With)) and node in par.body:
            node = par
            continue
        break
    for s in following:
        if not _mentions(s, v):
            continue
        # the first statement that mentions v must be the check
        if isinstance(s, ast.Expr) and isinstance(s.value, ast.Call) and ast.unparse(s.value.func).endswith('check_decode_error') \
                and any(isinstance(a, ast.Name) and a.id == v for a in s.value.args):
            return 'CHECK', True, 'check_decode_error(%s) before any other use' % v
        if isinstance(s, ast.If) and isinstance(_strip_not(s.test), ast.Compare) and 'TAG_MISMATCH' in ast.unparse(s.test) and _mentions(s.test, v):
            return 'CHECK', True, 'compared with TAG_MISMATCH before any other use'
        return 'UNCHECKED', False, '%s is used (%s) before being compared with TAG_MISMATCH' % (v, norm_stmt(s))
    return 'UNCHECKED', False, '%s is never compared with TAG_MISMATCH' % v


# ------------------------------------------------------------------ R3
def primitive_bounded(cls, name, _seen=None):
    """A Decoder read primitive is BOUNDED when every read it performs (transitively, on
    self) has a constant width and it contains no loop."""
    _seen = _seen or set()
    if (cls.qname, name) in _seen:
        return False
    _seen.add((cls.qname, name))
    m = cls.find_method(name)
    if not m:
        return False
    f = m[1]
    for n in walk_no_nested(f):
        if isinstance(n, (ast.While, ast.For)):
            return False
        if isinstance(n, ast.Call) and isinstance(n.func, ast.Attribute) and isinstance(n.func.value, ast.Name) and n.func.value.id == 'self':
            cal = n.func.attr
            if cal in ('read_non_negative_binary_integer', 'read_bits', 'read_bytes', 'skip_bits'):
                if not (n.args and isinstance(n.args[0], ast.Constant)):
                    return False
            elif cal.startswith('read_'):
                if not primitive_bounded(cls, cal, _seen):
                    return False
    return True


WIDTH_READS = ('read_non_negative_binary_integer', 'read_bits', 'read_bytes', 'skip_bits')
ALWAYS_CONSUME = ('read_bit', 'read_byte', 'read_length_determinant', 'read_tag', 'read_unsigned_integer', 'read_integer',
                  'read_unconstrained_whole_number', 'read_normally_small_length', 'read_normally_small_non_negative_whole_number')


def is_config(expr, local_cfg=()):
    for n in ast.walk(expr):
        if isinstance(n, ast.Name) and n.id not in ('self', 'len', 'int', 'max', 'min', 'True', 'False', 'None') and n.id not in local_cfg:
            return False
        if isinstance(n, ast.Call) and not (isinstance(n.func, ast.Name) and n.func.id in ('len', 'int', 'max', 'min')):
            return False
    return True


_CALLERS = {}


def callers_of(cg, f):
    """[(caller, call)] of every resolved call site of f."""
    if id(cg) not in _CALLERS or _CALLERS[id(cg)][0] is not cg:
        idx = {}
        for g, sites in cg.sites.items():
            for call, ts in sites:
                for t in ts:
                    idx.setdefault(t, []).append((g, call))
        _CALLERS.clear()
        _CALLERS[id(cg)] = (cg, idx)       # the call graph object is kept alive with its index: an id can be reused by a later object
    return _CALLERS[id(cg)][1].get(f, [])


def count_origin(name_or_expr, f, decoder_cls, depth=0, cg=None):
    """-> ('CONFIG'|'BOUNDED'|'UNBOUNDED'|'UNKNOWN', why)"""
    e = name_or_expr
    if is_config(e):
        return 'CONFIG', 'configuration %s' % ast.unparse(e)
    if isinstance(e, ast.Name):
        binds = []
        for a in walk_no_nested(f):
            if isinstance(a, ast.Assign) and e.id in [x for t in a.targets for x in flow.target_names(t)]:
                binds.append(a.value)
            elif isinstance(a, ast.For) and e.id in flow.target_names(a.target):
                binds.append(a.iter)
            elif isinstance(a, ast.AugAssign) and isinstance(a.target, ast.Name) and a.target.id == e.id:
                binds.append(a.value)
        if e.id in flow.param_names(f) and not binds:
            # a count handed in by the callers: the worst origin over every resolved call site
            order = {'CONFIG': 0, 'BOUNDED': 1, 'UNKNOWN': 2, 'UNBOUNDED': 3}
            sites = callers_of(cg, f) if cg is not None and depth <= 10 else []
            if not sites:
                return 'UNKNOWN', 'parameter %s' % e.id
            pur = effects.Purity.__new__(effects.Purity)
            worst = ('CONFIG', '')
            for g, call in sites:
                a = effects.Purity._arg_for(pur, f, call, e.id)
                if a is None:
                    return 'UNKNOWN', 'parameter %s (argument not found at %s:%d)' % (e.id, g._mod.rel, call.lineno)
                r = count_origin(a, g, decoder_cls, depth + 1, cg)
                r = (r[0], '%s, passed by %s' % (r[1], Model.qual(g)))
                if order[r[0]] > order[worst[0]]:
                    worst = r
            return worst
        if e.id in flow.param_names(f):
            return 'UNKNOWN', 'parameter %s' % e.id
        if not binds or depth > 10:
            return 'UNKNOWN', 'no binding for %s' % e.id
        worst = ('CONFIG', '')
        order = {'CONFIG': 0, 'BOUNDED': 1, 'UNKNOWN': 2, 'UNBOUNDED': 3}
        for b in binds:
            if isinstance(b, ast.Constant) and b.value is None:
                continue
            r = count_origin(b, f, decoder_cls, depth + 1, cg)
            if order[r[0]] > order[worst[0]]:
                worst = r
        return worst
    if isinstance(e, ast.Call) and isinstance(e.func, ast.Attribute) and isinstance(e.func.value, ast.Name) \
            and e.func.value.id in ('decoder', 'self'):
        n = e.func.attr
        def cfg(a, _f=f, _d=depth):     # configuration through helper parameters as well
            return count_origin(a, _f, decoder_cls, _d + 1, cg)[0] == 'CONFIG'
        if n == 'read_constrained_whole_number':
            if all(cfg(a) for a in e.args):
                return 'BOUNDED', '%s with configuration bounds' % n
            return 'UNBOUNDED', '%s with wire-derived bounds' % n
        if n in WIDTH_READS:
            if e.args and cfg(e.args[0]):
                return 'BOUNDED', '%s of configuration width' % n
            return 'UNBOUNDED', '%s of wire-derived width' % n
        if n == 'read_length_determinant_chunks':
            inner = primitive_bounded(decoder_cls, 'read_length_determinant')
            return ('BOUNDED' if inner else 'UNBOUNDED'), 'chunk lengths from read_length_determinant'
        if n.startswith('read_'):
            if primitive_bounded(decoder_cls, n):
                return 'BOUNDED', '%s.%s reads only constant widths' % (decoder_cls.qname, n)
            return 'UNBOUNDED', '%s.%s reads a wire-derived width (value up to 2^(8*127))' % (decoder_cls.qname, n)
    if isinstance(e, ast.Call) and cg is not None and depth <= 10:
        # a helper of the repository: the worst origin over its return values
        ts = [t for t in cg.resolve_call(f, e)]
        if ts:
            order = {'CONFIG': 0, 'BOUNDED': 1, 'UNKNOWN': 2, 'UNBOUNDED': 3}
            worst = ('CONFIG', '')
            for t in ts:
                rets = [n.value for n in walk_no_nested(t) if isinstance(n, ast.Return) and n.value is not None]
                if not rets:
                    return 'UNKNOWN', ast.unparse(e)
                for rv in rets:
                    r = count_origin(rv, t, decoder_cls, depth + 1, cg)
                    r = (r[0], '%s, returned by %s' % (r[1], Model.qual(t)))
                    if order[r[0]] > order[worst[0]]:
                        worst = r
            return worst
    if isinstance(e, (ast.BinOp, ast.UnaryOp, ast.IfExp, ast.Compare, ast.BoolOp)):
        worst = ('CONFIG', '')
        order = {'CONFIG': 0, 'BOUNDED': 1, 'UNKNOWN': 2, 'UNBOUNDED': 3}
        for ch in ast.iter_child_nodes(e):
            if isinstance(ch, (ast.operator, ast.unaryop, ast.cmpop, ast.boolop)):
                continue
            r = count_origin(ch, f, decoder_cls, depth + 1, cg)
            if order[r[0]] > order[worst[0]]:
                worst = r
        return worst
    if isinstance(e, ast.Constant):
        return 'CONFIG', 'constant'
    return 'UNKNOWN', ast.unparse(e)


def check(ctx):
    model = ctx.model
    cg = CallGraph(model)
    roots = decode_roots(model)
    reach = cg.reachable(roots)
    ctx.extra['decode_entry_points'] = len(roots)
    ctx.extra['decode_reachable_functions'] = len(reach)

    ctx.rule('C08.R1', 'TAG_MISMATCH sentinel discipline at every BER/DER type-level decode call: CHECK | RETURN | TAG-SELECTED')
    ctx.rule('C08.R2', 'every while loop reachable from a decode entry point matches a progress template and its obligation')
    ctx.rule('C08.R3', 'wire-derived for-loop counts are bounded (config / bounded primitive / earlier guarded read of that width / unconditional consuming read)')
    ctx.rule('C08.R4', 'no decode-reachable method writes state that outlives the call (E2 purity, shared with C18)')
    ctx.rule('C08.R5', 'BER contents are reached only through decode_length, whose missing-data test is present')

    # ---- R1
    sent_ok = {}
    for rel in (BER, DER):
        m = model.mod(rel)
        for f in [n for n in ast.walk(m.tree) if isinstance(n, ast.FunctionDef)]:
            for call in type_level_decode_calls(f):
                idiom, ok, why = sentinel_idiom(call, f)
                sent_ok[call] = ok
                cons = '%s [%s]' % (Model.qual(f), ast.unparse(call.func))
                ctx.instance('C08.R1', cons, idiom if ok else 'VIOLATION', why, node=call, file=rel)
                if not ok:
                    ctx.violation('C08.R1', rel, call, Model.qual(f),
                                  'result of %s: %s.  The callee returns (TAG_MISMATCH, start_offset) without advancing; used as a '
                                  'value it corrupts the result and, in a loop, never makes progress (hang).' % (ast.unparse(call.func), why),
                                  stmt=norm_stmt(Model.enclosing_stmt(call)))
    ctx.floor('C08.R1', 5)

    # ---- R2
    n_dec = 0
    n_uncl = 0
    for rel in ALL:
        if rel not in model.modules:
            continue
        m = model.modules[rel]
        for f in [n for n in ast.walk(m.tree) if isinstance(n, ast.FunctionDef)]:
            for loop in [n for n in walk_no_nested(f) if isinstance(n, ast.While)]:
                on_decode = f in reach
                tmpl, ok, why = loops.classify_while(loop, f, model, cg, sentinel_ok=lambda c: sent_ok.get(c, True))
                cons = '%s [%s]' % (Model.qual(f), norm_stmt(loop))
                if not on_decode:
                    ctx.instance('C08.R2', cons, 'not-on-decode-path', tmpl, nontrivial=False, node=loop, file=rel)
                    continue
                n_dec += 1
                if tmpl == 'UNCLASSIFIED':
                    # no template applies: progress of this loop is not decided (never an alarm: the templates are sufficient
                    # conditions, a loop of another shape may well terminate)
                    n_uncl += 1
                    ctx.instance('C08.R2', cons, 'undecided', why, nontrivial=False, node=loop, file=rel)
                    ctx.note('C08.R2 undecided: %s matches no progress template' % cons)
                    continue
                ctx.instance('C08.R2', cons, tmpl if ok else 'VIOLATION', why, node=loop, file=rel)
                if not ok:
                    ctx.violation('C08.R2', rel, loop, Model.qual(f),
                                  'while loop on a decode path (%s): %s' % (tmpl, why),
                                  extra={'entry_path': cg.path(roots, f)})
    ctx.extra['decode_reachable_while_loops'] = n_dec
    if n_dec < 9:
        raise AnalysisError('C08.R2 saw only %d decode-reachable while loops (floor 9)' % n_dec)

    # ---- R3
    for rel in ('asn1tools/codecs/per.py', 'asn1tools/codecs/uper.py', 'asn1tools/codecs/oer.py'):
        m = model.mod(rel)
        dec_cls = m.classes.get('Decoder') or model.mod('asn1tools/codecs/per.py').classes['Decoder']
        for f in [n for n in ast.walk(m.tree) if isinstance(n, ast.FunctionDef)]:
            if f not in reach:
                continue
            if getattr(f, '_cls', None) is not None and f._cls.name in ('Decoder', 'Encoder'):
                continue
            fors = []
            for n in walk_no_nested(f):
                if isinstance(n, ast.For):
                    fors.append((n, n.iter, n.body))
                elif isinstance(n, (ast.ListComp, ast.DictComp, ast.SetComp, ast.GeneratorExp)):
                    for g in n.generators:
                        fors.append((n, g.iter, [ast.Expr(value=n.elt if not isinstance(n, ast.DictComp) else n.value)]))
            for node, it, body in fors:
                if not (isinstance(it, ast.Call) and isinstance(it.func, ast.Name) and it.func.id == 'range' and len(it.args) == 1):
                    # iteration over a decoder generator is covered by T-READ; over config collections is bounded
                    continue
                cnt = it.args[0]
                kind, why = count_origin(cnt, f, dec_cls, cg=cg)
                cons = '%s [for .. in range(%s)]' % (Model.qual(f), ast.unparse(cnt))
                if kind in ('CONFIG', 'BOUNDED'):
                    ctx.instance('C08.R3', cons, kind, why, node=node, file=rel)
                    continue
                # accepted idioms for an unbounded count
                ok = False
                how = ''
                if isinstance(cnt, ast.Name):
                    for s in flow.stmts_before(f, node):
                        for c in [s] + list(walk_no_nested(s)):
                            if isinstance(c, ast.Call) and isinstance(c.func, ast.Attribute) and c.func.attr in WIDTH_READS \
                                    and c.args and isinstance(c.args[0], ast.Name) and c.args[0].id == cnt.id \
                                    and not any(isinstance(p, (ast.If, ast.For, ast.While)) for p in _ancestors_until(c, f)):
                                ok = True
                                how = 'count %s was consumed as a bit width by the guarded %s before the loop (count <= remaining bits)' % (cnt.id, c.func.attr)
                if not ok:
                    for s in body:
                        if isinstance(s, (ast.If, ast.For, ast.While, ast.Try)):
                            break
                        for c in [s] + list(ast.walk(s)):
                            if isinstance(c, ast.Call) and isinstance(c.func, ast.Attribute) and isinstance(c.func.value, ast.Name) \
                                    and c.func.value.id == 'decoder':
                                if c.func.attr in ALWAYS_CONSUME or (c.func.attr in WIDTH_READS and c.args and isinstance(c.args[0], ast.Constant)
                                                                     and isinstance(c.args[0].value, int) and c.args[0].value > 0):
                                    ok = True
                                    how = 'every iteration performs the consuming read %s' % c.func.attr
                if not ok and isinstance(cnt, ast.Name) and cnt.id in flow.param_names(f):
                    # the count is a parameter of a helper: the same idiom at every call site (the argument was consumed as a bit width by a guarded read before the call)
                    idx_ = flow.param_names(f).index(cnt.id) - (1 if flow.param_names(f)[:1] == ['self'] else 0)
                    sites_ = []
                    for g_ in [n_ for n_ in ast.walk(m.tree) if isinstance(n_, ast.FunctionDef) and n_ is not f]:
                        for c_ in walk_no_nested(g_):
                            if isinstance(c_, ast.Call) and sem.callee_name(c_) == f.name and idx_ < len(c_.args):
                                sites_.append((g_, c_))
                    good_ = 0
                    for g_, c_ in sites_:
                        a_ = c_.args[idx_]
                        if not isinstance(a_, ast.Name):
                            continue
                        for s in flow.stmts_before(g_, Model.enclosing_stmt(c_)):
                            for c2 in [s] + list(walk_no_nested(s)):
                                if isinstance(c2, ast.Call) and isinstance(c2.func, ast.Attribute) and c2.func.attr in WIDTH_READS and c2.args and isinstance(c2.args[0], ast.Name) \
                                        and c2.args[0].id == a_.id and not any(isinstance(p_, (ast.If, ast.For, ast.While)) for p_ in _ancestors_until(c2, g_)):
                                    good_ += 1
                                    break
                            else:
                                continue
                            break
                    if sites_ and good_ == len(sites_):
                        ok = True
                        how = 'at each of the %d call sites the count was consumed as a bit width by a guarded read before the call (count <= remaining bits)' % len(sites_)
                if not ok and kind == 'UNKNOWN':
                    ctx.instance('C08.R3', cons, 'undecided', 'the origin of the count could not be traced: ' + why, node=node, file=rel)
                    continue
                ctx.instance('C08.R3', cons, 'WIRE-GUARDED' if ok else 'VIOLATION', how or why, node=node, file=rel)
                if not ok:
                    ctx.violation('C08.R3', rel, node, Model.qual(f),
                                  'loop count %s comes from the wire without a bound (%s) and the body has no unconditional consuming read: '
                                  'a zero-width element type makes the decoder loop/allocate 2^k times on a few input octets'
                                  % (ast.unparse(cnt), why), stmt='for _ in range(%s)' % ast.unparse(cnt))
    ctx.floor('C08.R3', 8)

    # ---- R6: the exponent of a power computed while decoding is bounded independently of the input.  `b ** e` builds a number of
    #      e * log2(b) bits: with e taken from a field whose width the input chooses, a few octets cost unbounded time and memory.
    ctx.rule('C08.R6', 'exponents of ** in decode-reachable code are bounded by fixed-width fields or configuration')

    def magnitude(e, f, depth=0, seen=()):
        """True: bounded by a constant whatever the input; False: grows with a width the input chooses; None: not decided"""
        if depth > 8:
            return None
        if isinstance(e, ast.Constant):
            return True
        if isinstance(e, ast.Attribute):
            return True if (isinstance(e.value, ast.Name) and e.value.id == 'self') else None        # configuration
        if isinstance(e, ast.Subscript):
            if isinstance(e.slice, ast.Slice):
                return None
            if isinstance(e.value, ast.Call) and isinstance(e.value.func, ast.Attribute) and e.value.func.attr in ('unpack', 'unpack_from') \
                    and e.value.args and isinstance(e.value.args[0], ast.Constant):
                return True        # a struct field of a literal format
            return True            # one element of a byte string / list: an octet
        if isinstance(e, ast.UnaryOp):
            return magnitude(e.operand, f, depth + 1, seen)
        if isinstance(e, ast.BinOp):
            a, b = magnitude(e.left, f, depth + 1, seen), magnitude(e.right, f, depth + 1, seen)
            if a is False or b is False:
                return False
            if isinstance(e.op, ast.Pow):
                return None if not (a and b) else True
            return True if (a and b) else None
        if isinstance(e, ast.IfExp):
            a, b = magnitude(e.body, f, depth + 1, seen), magnitude(e.orelse, f, depth + 1, seen)
            return False if (a is False or b is False) else (True if (a and b) else None)
        if isinstance(e, ast.Name):
            if e.id in seen:
                return True
            binds = []
            for a in walk_no_nested(f):
                if isinstance(a, ast.Assign) and e.id in [x for t in a.targets for x in flow.target_names(t)]:
                    binds.append(a.value if not isinstance(a.targets[0], (ast.Tuple, ast.List)) else None)
                elif isinstance(a, ast.AugAssign) and isinstance(a.target, ast.Name) and a.target.id == e.id:
                    binds.append(a.value)
                elif isinstance(a, (ast.For, ast.comprehension)) and e.id in flow.target_names(a.target):
                    binds.append(None)
            if not binds:
                return None          # a parameter: not followed
            res = [magnitude(b, f, depth + 1, seen + (e.id,)) if b is not None else None for b in binds]
            if any(r is False for r in res):
                return False
            return True if all(res) else None
        if isinstance(e, ast.Call):
            fn = ast.unparse(e.func)
            def fixed_slice(x):
                return isinstance(x, ast.Subscript) and isinstance(x.slice, ast.Slice) and all(
                    b is None or magnitude(b, f, depth + 1, seen) is True and not any(isinstance(y, ast.Call) for y in ast.walk(b)) for b in (x.slice.lower, x.slice.upper)) \
                    and x.slice.upper is not None
            def var_slice(x):
                return isinstance(x, ast.Subscript) and isinstance(x.slice, ast.Slice)
            if fn == 'int.from_bytes' and e.args:
                if fixed_slice(e.args[0]) and all(isinstance(b, ast.Constant) or b is None for b in (e.args[0].slice.lower, e.args[0].slice.upper)):
                    return True
                return False if var_slice(e.args[0]) or isinstance(e.args[0], ast.Name) else None
            if fn == 'int' and e.args and isinstance(e.args[0], ast.Call) and ast.unparse(e.args[0].func).endswith('hexlify') and e.args[0].args:
                x = e.args[0].args[0]
                if isinstance(x, ast.Subscript) and isinstance(x.slice, ast.Slice) and all(isinstance(b, ast.Constant) for b in (x.slice.lower, x.slice.upper) if b is not None) and x.slice.upper is not None:
                    return True
                return False
            if fn == 'len':
                return False
            if isinstance(e.func, ast.Attribute) and e.func.attr.startswith('read_'):
                kind, _why = count_origin(e, f, model.mod('asn1tools/codecs/per.py').classes['Decoder'], cg=cg)
                return True if kind in ('CONFIG', 'BOUNDED') else (False if kind == 'UNBOUNDED' else None)
            if fn in ('abs', 'int', 'min') and e.args:
                return magnitude(e.args[0], f, depth + 1, seen)
            return None
        return None
    n6 = 0
    for f in sorted(reach, key=lambda g: (g._mod.rel, g.lineno)):
        if not f._mod.rel.startswith('asn1tools/codecs/'):
            continue
        for n in walk_no_nested(f):
            if isinstance(n, ast.BinOp) and isinstance(n.op, ast.Pow) and not isinstance(n.right, ast.Constant):
                n6 += 1
                mg = magnitude(n.right, f)
                ctx.instance('C08.R6', '%s: %s' % (Model.qual(f), ast.unparse(n)[:60]), 'bounded exponent' if mg else ('undecided' if mg is None else 'VIOLATION'),
                             nontrivial=mg is not None, node=n, file=f._mod.rel)
                if mg is False:
                    ctx.violation('C08.R6', f._mod.rel, n, Model.qual(f),
                                  'the exponent of %s is read from a field whose width the input chooses: a message of a few octets makes the decoder build a number of that many '
                                  'bits (time and memory exponential in the length of the input)' % ast.unparse(n), stmt=norm_stmt(Model.enclosing_stmt(n)))
    if n6 == 0:
        ctx.instance('C08.R6', 'no ** with a computed exponent in decode-reachable code', 'ok', nontrivial=False)

    # ---- R4 purity of decode-reachable methods
    eff = effects.Purity(model, cg)
    nchk = 0
    for f in sorted(reach, key=lambda g: (g._mod.rel, g.lineno)):
        if not f._mod.rel.startswith('asn1tools/'):
            continue
        nchk += 1
        probs = eff.check_function(f)
        ctx.instance('C08.R4', Model.qual(f), 'pure' if not probs else 'VIOLATION', nontrivial=eff.had_stores(f), node=f, file=f._mod.rel)
        for node, why in probs:
            ctx.violation('C08.R4', f._mod.rel, node, Model.qual(f), 'decode-reachable method %s' % why,
                          extra={'entry_path': cg.path(roots, f)})
    if nchk < 150:
        raise AnalysisError('C08.R4 examined only %d decode-reachable functions' % nchk)

    # ---- R5
    m = model.mod(BER)
    dl = model.func(BER, 'decode_length')
    ok, why5, n5 = decode_length_missing_data(model)
    ctx.instance('C08.R5', '%s missing-data test on %d returning paths' % (Model.qual(dl), n5), 'ok' if ok else 'VIOLATION', node=dl, file=BER)
    if not ok:
        ctx.violation('C08.R5', BER, dl, Model.qual(dl),
                      'decode_length no longer raises MissingDataError unconditionally when offset + length > len(encoded) (%s): '
                      'a declared length beyond the data is used by the content decoders' % why5, stmt='missing-data test')
    # every decode()/decode_content() that slices/indexes `data` by length obtains the length from decode_length
    for rel in (BER, DER):
        mm = model.mod(rel)
        for c in mm.classes.values():
            f = c.methods.get('decode')
            if f is None or len(flow.param_names(f)) < 3:
                continue
            calls = [n for n in walk_no_nested(f) if isinstance(n, ast.Call)]
            uses_len = any(isinstance(n, ast.Call) and isinstance(n.func, ast.Attribute) and n.func.attr in
                           ('decode_content', 'decode_primitive_contents', 'decode_constructed_contents') for n in calls)
            if not uses_len:
                continue
            has = any(isinstance(n.func, ast.Name) and n.func.id == 'decode_length' for n in calls)
            ctx.instance('C08.R5', '%s obtains length via decode_length' % Model.qual(f), 'ok' if has else 'VIOLATION', node=f, file=rel)
            if not has:
                ctx.violation('C08.R5', rel, f, Model.qual(f), 'contents decoded without going through decode_length', stmt='no decode_length')
    ctx.floor('C08.R5', 3)

    # ---- R7: the read position only moves forward.  Interval abstract interpretation (sa/intervals.py) of the *amount* handed to every consuming
    #      Decoder primitive of the bit-stream codecs.  A negative amount passes the `amount > self.number_of_bits` guard of the primitives and moves
    #      the read position backwards: the same octets are decoded again, and with a recursive type the work grows exponentially with the input.
    ctx.rule('C08.R7', 'amounts handed to consuming Decoder primitives are non-negative wherever they depend on the input (interval analysis), or the primitive rejects them')
    n7 = 0
    for rel in ('asn1tools/codecs/per.py', 'asn1tools/codecs/uper.py', 'asn1tools/codecs/oer.py'):
        mod = model.mod(rel)
        dcs = intervals.decoder_classes(model, [rel])
        if not dcs:
            raise AnalysisError('%s has no Decoder class' % rel)
        facts = intervals.DecoderFacts(dcs[0])
        if not facts.prims:
            raise AnalysisError('%s: no consuming primitive found in %s' % (rel, dcs[0].qname))
        ctx.instance('C08.R7', '%s consuming primitives: %s' % (dcs[0].qname, ', '.join('%s%s' % (k, ' (a negative amount never completes)' if v else '') for k, v in sorted(facts.prims.items()))),
                     'derived', nontrivial=False, file=rel)
        funcs = [(c, f) for c in mod.classes.values() for f in c.methods.values()] + [(None, f) for f in mod.functions.values()]
        for c, f in funcs:
            names = [a.arg for a in f.args.args if 'decoder' in a.arg.lower()]
            names += [t.id for n in walk_no_nested(f) if isinstance(n, ast.Assign) and isinstance(n.value, ast.Call) and ast.unparse(n.value.func).split('.')[-1] == 'Decoder'
                      for t in n.targets if isinstance(t, ast.Name)]
            indec = c is not None and c in dcs
            if not names and not indec:
                continue
            try:
                a = intervals.Analysis(f, decoder_names=names, in_decoder=indec, summaries=lambda k: facts.ret.get(k), facts=facts).run()
            except RecursionError:
                ctx.instance('C08.R7', '%s amounts' % Model.qual(f), 'undecided', 'recursion limit', nontrivial=False, node=f, file=rel)
                continue
            for node, iv, name in sorted(a.calls.values(), key=lambda t: (t[0].lineno, t[0].col_offset)):
                if name not in facts.prims:
                    continue
                n7 += 1
                harmless = facts.prims[name]
                g = a.callee_of.get(id(node))
                where = Model.qual(f) if g is None else '%s (called from %s)' % (Model.qual(g), Model.qual(f))
                if iv.nn():
                    verdict = 'non-negative %s' % iv
                elif not iv.wire:
                    verdict = 'configuration only %s' % iv
                elif harmless:
                    verdict = 'may be negative %s, but %s never completes on a negative amount' % (iv, name)
                else:
                    verdict = 'VIOLATION'
                ctx.instance('C08.R7', '%s: %s' % (where, ast.unparse(node)[:90]), verdict, nontrivial=iv.wire, node=node, file=rel)
                if verdict == 'VIOLATION':
                    ctx.violation('C08.R7', rel, node, Model.qual(g if g is not None else f),
                                  'the amount of %s depends on the input and may be negative (%s): %s accepts a negative amount and moves the read position backwards, so '
                                  'the same input is decoded again (exponential work on recursive types, values decoded from the wrong place)'
                                  % (ast.unparse(node)[:120], iv, name), stmt=norm_stmt(Model.enclosing_stmt(node)))
    if n7 < 25:
        raise AnalysisError('C08.R7 examined only %d consuming calls (floor 25)' % n7)

    # ---- R8: the JSON document is parsed into machine numbers.  json.loads() turns a number with a fraction or an exponent into a float (bounded: 1e999999 is inf) in time linear
    #      in the text.  A parse hook that keeps the number exact (decimal.Decimal, fractions.Fraction) keeps the exponent symbolic, and any later int() / arithmetic on it
    #      materialises 10**exponent: a 15-octet document costs minutes and hundreds of megabytes.
    ctx.rule('C08.R8', 'JER: json.loads parses numbers with the default (bounded) float / int conversions: no parse hook that keeps the exponent of the text symbolic')
    n8 = 0
    jm = model.mod('asn1tools/codecs/jer.py')
    for x_ in ast.walk(jm.tree):
        if not (isinstance(x_, ast.Call) and ast.unparse(x_.func) in ('json.loads', 'json.load', 'loads', 'json.JSONDecoder', 'JSONDecoder')):
            continue
        n8 += 1
        hooks = [(k_.arg, k_.value) for k_ in x_.keywords if k_.arg in ('parse_float', 'parse_int', 'parse_constant', 'object_hook', 'object_pairs_hook', 'cls')]
        bad_ = [(a_, v_) for a_, v_ in hooks if not (a_ == 'parse_float' and ast.unparse(v_) == 'float') and not (a_ == 'parse_int' and ast.unparse(v_) == 'int')
                and not (isinstance(v_, ast.Constant) and v_.value is None)]
        f_ = Model.enclosing_function(x_)
        ctx.instance('C08.R8', '%s %s' % (Model.qual(f_) if f_ is not None else jm.rel, ast.unparse(x_)[:80]), 'default number parsing' if not bad_ else 'VIOLATION', node=x_, file=jm.rel)
        for a_, v_ in bad_[:1]:
            ctx.violation('C08.R8', jm.rel, x_, Model.qual(f_) if f_ is not None else jm.rel,
                          'the document is parsed with %s=%s: numbers are no longer reduced to bounded floats while parsing, so the exponent written in the text survives as a number of '
                          'arbitrary size (1e3000000 in 9 octets) and the work and memory of decoding it are not proportional to the length of the input'
                          % (a_, ast.unparse(v_)[:40]), stmt='json parse hook %s' % a_)
    if n8 < 1:
        raise AnalysisError('C08.R8: no json.loads call found in asn1tools/codecs/jer.py')

    # ---- R9: the end-of-contents helper of the BER decoders never hands back an offset below the one it was given.  The lengths of nested TLVs are checked against the whole
    #      buffer only, so a child may end behind its parent; if the helper then "corrects" the offset to the parent's declared end the read position moves backwards and the
    #      octets in between are decoded again -- once more per nesting level (exponential work for a 70-octet input).  Decided by bounded evaluation (sa/excmap.py).
    ctx.rule('C08.R9', 'ber.is_end_of_data returns an offset that is never below the current one (also when the current offset is already past the declared end)')
    from .. import excmap as _ex
    ied = model.mod(BER).functions.get('is_end_of_data')
    if ied is None:
        ctx.instance('C08.R9', 'ber.is_end_of_data', 'undecided', 'helper not found (the loops are covered by C08.R2)', nontrivial=False, file=BER)
    else:
        e_ok, e_und, e_bad, e_why = _ex.evaluate_is_end_of_data(ied)
        ctx.instance('C08.R9', 'ber.is_end_of_data evaluated on %d (offset, end) cases, %d undecided' % (e_ok + (1 if e_bad else 0), e_und), 'VIOLATION' if e_bad else ('ok' if e_ok else 'undecided'),
                     e_why or '', nontrivial=e_ok > 0, node=ied, file=BER)
        if e_bad:
            ctx.violation('C08.R9', BER, ied, Model.qual(ied),
                          '%s: when a nested TLV ends behind the declared end of its parent the decoder continues from an earlier offset and decodes the same octets again; with k nested '
                          'levels the work doubles k times (a 69-octet input yields 65536 octets of output)' % e_bad, stmt='end-of-data offset')


def decode_length_missing_data(model):
    """Every path on which ber.decode_length returns a definite length (L, O) has established  not (O + L > len(buffer)),
    and the paths on which that comparison holds raise MissingDataError.  -> (ok, why, number of returning paths)"""
    dl = model.func(BER, 'decode_length')
    # decided by bounded evaluation when decode_length is evaluable (sa/excmap.py: every length form, every prefix, contents one octet short -> MissingDataError);
    # the path-shape argument below is the fall-back
    from .. import excmap
    e_ok, e_und, e_bad, _why = excmap.evaluate_decode_length(dl)
    if e_und == 0 and e_ok > 0:
        return e_bad is None, e_bad or '', e_ok
    ps = sem.paths(dl, positional=True)
    if ps is None:
        raise AnalysisError('decode_length: too many paths')
    n = 0
    for p in ps:
        if p.outcome[0] != 'return' or not (isinstance(p.outcome[3], ast.Tuple) and len(p.outcome[3].elts) == 2):
            continue
        L, O = p.outcome[3].elts
        if isinstance(L, ast.Constant) and L.value is None:
            continue
        n += 1
        cmp_ = ast.Compare(ast.BinOp(sem.clone(O), ast.Add(), sem.clone(L)), [ast.Gt()], [sem.parse_expr('len(ARG0)')])
        t, pol = sem.ccond(cmp_)
        if not p.has(t, not pol):
            return False, 'a path returns length %s at offset %s without having compared them with the amount of data' % (sem.ctext(L), sem.ctext(O)), n
    if n < 2:
        raise AnalysisError('decode_length: only %d paths return a definite length' % n)
    for p in ps:
        if p.outcome[0] == 'raise' and p.conds and 'len(ARG0)' in p.conds[-1][0] and ' > 0' in p.conds[-1][0] and p.conds[-1][1] \
                and p.outcome[1] != 'MissingDataError':
            return False, 'contents beyond the data raise %s instead of MissingDataError' % p.outcome[1], n
    return True, '', n


def _ancestors_until(node, stop):
    p = getattr(node, '_parent', None)
    while p is not None and p is not stop:
        yield p
        p = getattr(p, '_parent', None)


MUTANTS = [
    dict(name='ber.ArrayType.decode_content drops check_decode_error', file=BER,
         old="""            decoded_element, offset = self.element_type.decode(data, offset)
            # Invalid Tag
            check_decode_error(self.element_type, decoded_element, data, offset)
""", new="""            decoded_element, offset = self.element_type.decode(data, offset)
""", expect=['C08.R1', 'C08.R2'], quick=True),
    dict(name='decode_members: no-progress break removed', file=BER,
         old="""            if not decode_success:
                # No members are able to decode data, exit loop
                break
""", new="", expect='C08.R2'),
    dict(name='read_length_determinant_chunks exit test never true', file='asn1tools/codecs/per.py',
         old="""            yield length

            if length < 16384:
                break
""", new="""            yield length
""", expect='C08.R2'),
    dict(name='skip_tag no longer advances inside the high-tag-number loop', file=BER,
         old="""            while data[offset] & 0x80:
                offset += 1
""", new="""            while data[offset] & 0x80:
                pass
""", expect='C08.R2'),
    dict(name='decode_length missing-data test made conditional', file=BER,
         old="""    data_length = len(encoded)
    if offset + length > data_length:""",
         new="""    data_length = len(encoded)
    if enforce_definite and offset + length > data_length:""", expect='C08.R5'),
    dict(name='oid subidentifier returns offset unchanged', file=BER,
         old="""    decoded += data[offset]

    return decoded, offset + 1""", new="""    decoded += data[offset]

    return decoded, offset""", expect='C08.R2', quick=True),
    dict(name='ExplicitTag.decode_content uses value before the check', file=BER,
         old="""        values, end_offset = self.inner.decode(data, offset)

        check_decode_error(self.inner, values, data, offset)
""", new="""        values, end_offset = self.inner.decode(data, offset)
""", expect='C08.R1'),
    dict(name='per.ArrayType takes the count from an unbounded read', file='asn1tools/codecs/per.py',
         old="""            if bit:
                decoder.align()
                length = decoder.read_length_determinant()

        if length is not None:""",
         new="""            if bit:
                decoder.align()
                length = decoder.read_unconstrained_whole_number()

        if length is not None:""", expect='C08.R3'),
    dict(name='decoder memoises in per.Enumerated', file='asn1tools/codecs/per.py',
         old="""    def decode_unbound(self, decoder):
        decoder.align()
        decoded = []

        for length in decoder.read_length_determinant_chunks():
            for _ in range(length):
                decoded_element = self.element_type.decode(decoder)""", new="""    def decode_unbound(self, decoder):
        decoder.align()
        decoded = []
        self._last_decoded = decoded

        for length in decoder.read_length_determinant_chunks():
            for _ in range(length):
                decoded_element = self.element_type.decode(decoder)""", expect='C08.R4', quick=True),
]
REFACTORS = [
    dict(name='inline TAG_MISMATCH test instead of check_decode_error', file=BER,
         old="""            decoded_element, offset = self.element_type.decode(data, offset)
            # Invalid Tag
            check_decode_error(self.element_type, decoded_element, data, offset)
""", new="""            decoded_element, offset = self.element_type.decode(data, offset)
            if decoded_element is TAG_MISMATCH:
                raise DecodeTagError(self.element_type, data, offset, location=self.element_type)
"""),
    dict(name='decode_length compares with len(encoded) directly', file=BER,
         old="""    data_length = len(encoded)
    if offset + length > data_length:""",
         new="""    data_length = len(encoded)
    if offset + length > len(encoded):"""),
]

MUTANTS.append(dict(name='binary REAL exponent read with a length taken from the input', file='asn1tools/codecs/ber.py',
                    old="""    elif control in [0x81, 0xc1]:
        exponent = ((data[1] << 8) | data[2])
""", new="""    elif control in [0x83, 0xc3]:
        offset = 2 + data[1]
        exponent = int.from_bytes(data[2:offset], byteorder='big', signed=True)
    elif control in [0x81, 0xc1]:
        exponent = ((data[1] << 8) | data[2])
""", expect='C08.R6'))

MUTANTS.append(dict(name='PER SEQUENCE additions skip to the declared end of the open type (may lie behind the read position)', quick=True,
                    edits=[dict(file='asn1tools/codecs/per.py', old="""                open_type_length = decoder.read_length_determinant()
                offset = decoder.number_of_bits
""", new="""                open_type_length = decoder.read_length_determinant()
                open_type_end = decoder.number_of_bits - 8 * open_type_length
"""), dict(file='asn1tools/codecs/per.py', old="""                else:
                    decoder.skip_bits(8 * open_type_length)

                alignment_bits = (offset - decoder.number_of_bits) % 8

                if alignment_bits != 0:
                    decoder.skip_bits(8 - alignment_bits)
""", new="""
                decoder.skip_bits(decoder.number_of_bits - open_type_end)
""")], expect='C08.R7'))
MUTANTS.append(dict(name='OER unknown addition skipped by length minus the octets already seen', file='asn1tools/codecs/oer.py',
                    old="                    decoder.skip_bits(8 * member_length)", new="                    decoder.skip_bits(8 * (member_length - 1))", expect='C08.R7'))
REFACTORS.append(dict(name='PER CHOICE addition: remaining length computed in a local and tested before the skip', file='asn1tools/codecs/per.py',
                      old="""            length -= (offset - decoder.number_of_bits)

            if length < 0:""", new="""            consumed = offset - decoder.number_of_bits
            length = length - consumed

            if not length >= 0:"""))
