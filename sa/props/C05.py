"""C05 -- PER/UPER bit-exact X.691 (table agreement; DESIGN.md section 4 C05)."""
import ast

from ..model import AnalysisError, Model, walk_no_nested, norm_stmt
from .. import flow, protocol, dispatch, siblings, evalexpr

EXPLANATION = (
    'Decided: (R1) the Encoder/Decoder primitive pairs of per.py use the same boundary tables and these equal the X.691 constants: constrained '
    'whole number {<=255 bit-field, ==256 one aligned octet, <=65536 two aligned octets, else aligned field} on both sides (11.5.7); length '
    'determinant {128, 16384} and the fragment markers 0xC1..0xC4 <-> 16K..64K written by the encoder equal the table read by the decoder '
    '(11.9); normally small non-negative whole number {64; 7 bits / 1+6 bits} (11.6); normally small length {64: 7 bits, 127: 9 bits / 6 bits+1, '
    '7 bits}; (R2) every method uper.py overrides emits only field shapes its PER parent has once alignment is removed and constrained whole '
    'numbers are read as plain fields (X.691 unaligned variant); uper align() is the empty override; (R3) SET is compiled sorted by (class '
    'priority, number) with UNIVERSAL < APPLICATION < CONTEXT < PRIVATE; (R4) PER-visible constraints reach the classes: size ranges, permitted '
    'alphabets, restricted-to in the tail; (R5) the ENUMERATED root is sorted by value before indexing, additions keep their order; (R6) E1 '
    'conformance of the per/uper classes (shared with C01.R1); (R7) number_of_bits of an Encoder is not zeroed after an append (it is read as '
    '"addition present" by the extension encoder).  Not decided: bit-exactness for all types and values; field contents; the permitted-alphabet '
    're-indexing rule; sizes above 64K.')
PER = 'asn1tools/codecs/per.py'
UPER = 'asn1tools/codecs/uper.py'
KM_STRINGS = ['NumericString', 'PrintableString', 'IA5String', 'BMPString', 'VisibleString']
SIZE_KINDS = ['SEQUENCE OF', 'SET OF', 'OCTET STRING', 'BIT STRING'] + KM_STRINGS

# X.691 11.5.7 (aligned variant), as (representative range, expected action)
CWN_ORACLE = [(1, ('F', 'number_of_bits')), (2, ('F', 'number_of_bits')), (255, ('F', 'number_of_bits')), (256, ('A', 'F', 8)),
              (257, ('A', 'F', 16)), (65535, ('A', 'F', 16)), (65536, ('A', 'F', 16)), (65537, ('A', 'F', 'number_of_bits')),
              (2 ** 32, ('A', 'F', 'number_of_bits'))]


def cwn_actions(f, rng):
    """Interpret the if-chain of append/read_constrained_whole_number for one range value: sequence of
    ('A') align_always and ('F', width) field calls."""
    env = {'_range': rng}
    acts = []

    def block(stmts):
        for s in stmts:
            if isinstance(s, ast.If):
                try:
                    t = evalexpr.ev(s.test, env)
                except evalexpr.Unsupported:
                    raise AnalysisError('%s: cannot evaluate %s' % (f.name, ast.unparse(s.test)))
                block(s.body if t else s.orelse)
            else:
                for c in ast.walk(s):
                    if isinstance(c, ast.Call) and isinstance(c.func, ast.Attribute) and isinstance(c.func.value, ast.Name) and c.func.value.id == 'self':
                        if c.func.attr in ('align_always', 'align'):
                            acts.append('A' if c.func.attr == 'align_always' else 'a')
                        elif c.func.attr in ('append_non_negative_binary_integer', 'read_non_negative_binary_integer'):
                            w = c.args[-1]
                            acts.append('F')
                            acts.append(w.value if isinstance(w, ast.Constant) else ast.unparse(w))
    # skip the statements that compute _range
    body = [s for s in f.body if not (isinstance(s, ast.Expr) and isinstance(s.value, ast.Constant))]
    rest = []
    seen_range = False
    for s in body:
        if isinstance(s, ast.Assign) and ast.unparse(s.targets[0]) == '_range':
            seen_range = ast.unparse(s.value).replace(' ', '') in ('maximum-minimum+1', '(maximum-minimum+1)')
            continue
        rest.append(s)
    if not seen_range:
        raise AnalysisError('%s: `_range = maximum - minimum + 1` not found' % f.name)
    block(rest)
    return tuple(acts)


def ints_in(f):
    return sorted({n.value for n in ast.walk(f) if isinstance(n, ast.Constant) and isinstance(n.value, int) and not isinstance(n.value, bool)})


def normp(p):
    out = []
    for t in p:
        if t[0] == 'ALIGN':
            continue
        if t[0] == 'CWN':
            t = ('FIELD', t[-1])
        if t[0] in ('LOOP', 'CHUNKS', 'WHILE'):
            t = (t[0], frozenset(normp(b) for b in t[1]))
        out.append(t)
    return tuple(out)


def check(ctx):
    model = ctx.model
    per = model.mod(PER)
    enc = model.cls(PER, 'Encoder')
    dec = model.cls(PER, 'Decoder')
    ctx.rule('C05.R1', 'Encoder/Decoder primitive tables agree with each other and with the X.691 constants')
    ctx.rule('C05.R2', 'UPER overrides = PER parents minus alignment (CWN read as FIELD); uper align() is empty')
    ctx.rule('C05.R3', "SET compiled sorted by (class priority, tag number); CLASS_PRIO order")
    ctx.rule('C05.R4', 'PER-visible constraints reach the classes (size, permitted alphabet, restricted-to)')
    ctx.rule('C05.R5', 'ENUMERATED root sorted by value before indexing; additions keep declaration order')
    ctx.rule('C05.R6', 'E1 conformance of per/uper classes')
    ctx.rule('C05.R7', 'Encoder.number_of_bits not zeroed after an append')

    # ---- R1 constrained whole number
    fe = enc.methods.get('append_constrained_whole_number')
    fd = dec.methods.get('read_constrained_whole_number')
    if fe is None or fd is None:
        raise AnalysisError('constrained whole number primitives vanished')
    for rng, want in CWN_ORACLE:
        ae = cwn_actions(fe, rng)
        ad = cwn_actions(fd, rng)
        ok = ae == ad == want
        ctx.instance('C05.R1', 'constrained whole number, range %d: encoder %s decoder %s X.691 %s' % (rng, ae, ad, want), 'ok' if ok else 'VIOLATION', node=fe, file=PER)
        if not ok:
            who = fe if ae != want else fd
            ctx.violation('C05.R1', PER, who, Model.qual(who),
                          'for a constrained whole number of range %d X.691 11.5.7 prescribes %s; the encoder does %s, the decoder %s (A = octet-align, F w = field of w bits)'
                          % (rng, want, ae, ad), stmt='constrained whole number range %d' % rng)
    # value - minimum on the encode side, + minimum on the decode side
    ok = any(isinstance(n, ast.AugAssign) and isinstance(n.op, ast.Sub) and ast.unparse(n.target) == 'value' and ast.unparse(n.value) == 'minimum' for n in walk_no_nested(fe)) and \
        any(isinstance(n, ast.Return) and ast.unparse(n.value).replace(' ', '') == 'value+minimum' for n in walk_no_nested(fd))
    ctx.instance('C05.R1', 'constrained whole number offset: encode value - minimum, decode value + minimum', 'ok' if ok else 'VIOLATION', node=fe, file=PER)
    if not ok:
        ctx.violation('C05.R1', PER, fe, Model.qual(fe), 'the offset from the lower bound is no longer subtracted on encode and added on decode', stmt='offset from minimum')

    # ---- R1 length determinant
    fe = enc.methods['append_length_determinant']
    fd = dec.methods['read_length_determinant']
    # encoder: chain of `length < K` tests
    chain = []
    s = [x for x in fe.body if isinstance(x, ast.If)][0]
    while True:
        t = s.test
        k = evalexpr.const_int(t.comparators[0]) if isinstance(t, ast.Compare) and isinstance(t.ops[0], ast.Lt) and ast.unparse(t.left) == 'length' else None
        chain.append((k, s.body))
        if len(s.orelse) == 1 and isinstance(s.orelse[0], ast.If):
            s = s.orelse[0]
        else:
            chain.append((None, s.orelse))
            break
    bounds = [k for k, _b in chain]
    ok = bounds == [128, 16384, 32768, 49152, 65536, None]
    ctx.instance('C05.R1', 'length determinant encoder boundaries %s' % bounds, 'ok' if ok else 'VIOLATION', node=fe, file=PER)
    if not ok:
        ctx.violation('C05.R1', PER, fe, Model.qual(fe), 'length determinant boundaries %s differ from X.691 11.9 [128, 16384, 32768, 49152, 65536]' % bounds, stmt='length determinant boundaries')
    enc_frag = {}
    for k, body in chain[2:]:
        marker = None
        ln = None
        for st in body:
            if isinstance(st, ast.Assign) and ast.unparse(st.targets[0]) == 'encoded' and isinstance(st.value, ast.Constant) and isinstance(st.value.value, bytes):
                marker = st.value.value[0]
            if isinstance(st, ast.Assign) and ast.unparse(st.targets[0]) == 'length':
                ln = evalexpr.const_int(st.value)
        enc_frag[marker] = ln
    dec_frag = None
    for n in walk_no_nested(fd):
        if isinstance(n, ast.Dict):
            dec_frag = {evalexpr.const_int(k): evalexpr.const_int(v) for k, v in zip(n.keys, n.values)}
    oracle = {0xc1: 16384, 0xc2: 32768, 0xc3: 49152, 0xc4: 65536}
    ok = enc_frag == dec_frag == oracle
    ctx.instance('C05.R1', 'fragment markers: encoder %s decoder %s' % (enc_frag, dec_frag), 'ok' if ok else 'VIOLATION', node=fd, file=PER)
    if not ok:
        who = fe if enc_frag != oracle else fd
        ctx.violation('C05.R1', PER, who, Model.qual(who), 'fragmentation table: encoder %s, decoder %s, X.691 11.9.3.8 %s' % (enc_frag, dec_frag, oracle), stmt='fragment markers')
    # short/long form masks
    src_e = ast.unparse(fe)
    src_d = ast.unparse(fd)
    ok = 'bytearray([length])' in src_e and 'bytearray([128 | length >> 8, length & 255])' in src_e and \
        'value & 128 == 0' in src_d.replace('(', '').replace(')', '') and 'value & 192 == 128' in src_d.replace('(', '').replace(')', '') and \
        'value & 127) << 8' in src_d
    ctx.instance('C05.R1', 'length determinant 1- and 2-octet forms (0xxxxxxx / 10xxxxxx xxxxxxxx)', 'ok' if ok else 'VIOLATION', node=fe, file=PER)
    if not ok:
        ctx.violation('C05.R1', PER, fe, Model.qual(fe), 'the one/two-octet forms of the length determinant differ between encoder and decoder or from X.691 11.9.3.6-7', stmt='length determinant forms')
    # the chunk generators stop below 16K on both sides
    for c_, nm in ((enc, 'append_length_determinant_chunks'), (dec, 'read_length_determinant_chunks')):
        f = c_.methods[nm]
        ok = any(isinstance(n, ast.If) and ast.unparse(n.test).replace(' ', '') in ('chunk_length<16384', 'length<16384') and any(isinstance(b, ast.Break) for b in n.body)
                 for n in walk_no_nested(f))
        ctx.instance('C05.R1', '%s stops after a fragment shorter than 16K' % Model.qual(f), 'ok' if ok else 'VIOLATION', node=f, file=PER)
        if not ok:
            ctx.violation('C05.R1', PER, f, Model.qual(f), 'fragmentation must continue exactly while the fragment length is >= 16384', stmt='chunk stop test')

    # ---- R1 normally small
    fe = enc.methods['append_normally_small_non_negative_whole_number']
    fd = dec.methods['read_normally_small_non_negative_whole_number']
    ok = 'value < 64' in ast.unparse(fe) and 'self.append_non_negative_binary_integer(value, 7)' in ast.unparse(fe) and \
        'self.read_non_negative_binary_integer(6)' in ast.unparse(fd) and 'if not self.read_bit()' in ast.unparse(fd)
    ctx.instance('C05.R1', 'normally small non-negative whole number: < 64 -> 0 + 6 bits', 'ok' if ok else 'VIOLATION', node=fe, file=PER)
    if not ok:
        ctx.violation('C05.R1', PER, fe, Model.qual(fe), 'normally small non-negative whole number (X.691 11.6): values 0..63 are a 0 bit and 6 bits on both sides', stmt='normally small number')
    fe = enc.methods['append_normally_small_length']
    fd = dec.methods['read_normally_small_length']
    se, sd = ast.unparse(fe), ast.unparse(fd)
    ok = 'value <= 64' in se and 'self.append_non_negative_binary_integer(value - 1, 7)' in se and 'self.read_non_negative_binary_integer(6) + 1' in sd
    ctx.instance('C05.R1', 'normally small length: 1..64 -> 0 + 6 bits of (n-1)', 'ok' if ok else 'VIOLATION', node=fe, file=PER)
    if not ok:
        ctx.violation('C05.R1', PER, fe, Model.qual(fe), 'normally small length (X.691 11.9.3.4): n in 1..64 is a 0 bit and n-1 in 6 bits on both sides', stmt='normally small length')

    # ---- R2
    upm = model.mod(UPER)
    for side_cls in ('Encoder', 'Decoder'):
        c = upm.classes.get(side_cls)
        f = c.methods.get('align') if c else None
        ok = f is not None and all(isinstance(s, ast.Pass) or (isinstance(s, ast.Expr) and isinstance(s.value, ast.Constant)) for s in f.body)
        ctx.instance('C05.R2', 'uper.%s.align is empty' % side_cls, 'ok' if ok else 'VIOLATION', node=f or upm.tree, file=UPER)
        if not ok:
            ctx.violation('C05.R2', UPER, f or upm.tree.body[0], 'uper.%s.align' % side_cls, 'the unaligned variant must not insert padding: uper.%s.align must stay empty' % side_cls, stmt='uper align')
    n2 = 0
    for uc in upm.classes.values():
        parents = [b for b in uc.bases if b.mod.rel == PER]
        # the sibling is the PER class of the same name, else the PER base class
        pc = per.classes.get(uc.name) or (parents[0] if parents else None)
        if pc is None or uc.name in ('Encoder', 'Decoder', 'Compiler', 'CompiledType'):
            continue
        for meth, side in (('encode', 'enc'), ('decode', 'dec')):
            if meth not in uc.methods:
                continue
            if len(uc.methods[meth].args.args) != (3 if side == 'enc' else 2):
                continue
            n2 += 1
            try:
                _ua, up = protocol.token_paths(uc, model, meth, side)
                _pa, pp = protocol.token_paths(pc, model, meth, side)
            except protocol.Abort as e:
                ctx.instance('C05.R2', '%s.%s' % (uc.qname, meth), 'not-analysed', str(e), nontrivial=False)
                continue
            U = set(normp(x) for v in up.values() for x in v)
            P = set(normp(x) for v in pp.values() for x in v)
            miss = [x for x in U if not any(protocol.seq_match(x, y) or protocol.seq_match(y, x) for y in P)]
            ctx.instance('C05.R2', '%s.%s: %d shapes, all among the %d PER shapes minus alignment' % (uc.qname, meth, len(U), len(P)), 'ok' if not miss else 'VIOLATION',
                         node=uc.methods[meth], file=UPER)
            if miss:
                ctx.violation('C05.R2', UPER, uc.methods[meth], '%s::%s.%s' % (UPER, uc.name, meth),
                              'the UPER override emits a field shape its PER parent does not have even after removing alignment: %s' % protocol.show_path(miss[0]),
                              stmt='uper shape not in per')
    if n2 < 10:
        raise AnalysisError('C05.R2 compared only %d uper overrides' % n2)

    # ---- R3
    for codec in ('per', 'uper'):
        tab = dispatch.table(model, codec)
        cell = tab.cells.get('SET')
        src = ' '.join(ast.unparse(s) for s in cell.body)
        ok = 'sort_by_tag=True' in src
        ctx.instance('C05.R3', "%s dispatch 'SET' passes sort_by_tag=True" % codec, 'ok' if ok else 'VIOLATION', node=cell.ctor, file=tab.rel)
        if not ok:
            ctx.violation('C05.R3', tab.rel, cell.ctor or tab.func, "%s::Compiler dispatch['SET']" % tab.rel, 'SET components are no longer put into canonical tag order (X.691 22 / X.680 8.6)', stmt='SET sort_by_tag')
    cm = model.func(PER, 'Compiler.compile_members')
    src = ast.unparse(cm)
    ok = 'if sort_by_tag:' in src and 'sorted(' in src and 'CLASS_PRIO' in ast.unparse(per.tree)
    # the sort key uses class priority then number
    ctx.instance('C05.R3', 'per compile_members sorts when sort_by_tag', 'ok' if ok else 'VIOLATION', node=cm, file=PER)
    if not ok:
        ctx.violation('C05.R3', PER, cm, Model.qual(cm), 'compile_members no longer sorts SET members by tag', stmt='sort')
    prio = per.const_value('CLASS_PRIO')
    ok = prio.get('UNIVERSAL') < prio.get('APPLICATION') < prio.get('CONTEXT_SPECIFIC') < prio.get('PRIVATE')
    ctx.instance('C05.R3', 'CLASS_PRIO %s' % prio, 'ok' if ok else 'VIOLATION', node=per.consts['CLASS_PRIO'], file=PER)
    if not ok:
        ctx.violation('C05.R3', PER, per.consts['CLASS_PRIO'], 'per.CLASS_PRIO', 'tag class order must be UNIVERSAL < APPLICATION < CONTEXT_SPECIFIC < PRIVATE (X.680 8.6)', stmt='CLASS_PRIO')

    # ---- R4
    for codec in ('per', 'uper'):
        tab = dispatch.table(model, codec)
        for kind in SIZE_KINDS:
            cell = tab.cells.get(kind)
            args = ' '.join(cell.arg_src()) if cell is not None else ''
            ok = 'self.get_size_range(' in args
            ctx.instance('C05.R4', "%s['%s'] receives the size range" % (codec, kind), 'ok' if ok else 'VIOLATION', node=cell.ctor if cell else tab.func, file=tab.rel)
            if not ok:
                ctx.violation('C05.R4', tab.rel, cell.ctor if cell and cell.ctor else tab.func, "%s::Compiler dispatch['%s']" % (tab.rel, kind),
                              "the SIZE constraint of %s no longer reaches the %s class: length fields are encoded as for an unconstrained type" % (kind, codec), stmt="size for '%s'" % kind)
        for kind in KM_STRINGS:
            cell = tab.cells.get(kind)
            src = ' '.join(ast.unparse(s) for s in cell.body)
            ok = 'permitted_alphabet=' in ' '.join(cell.arg_src()) and 'get_permitted_alphabet(' in src
            ctx.instance('C05.R4', "%s['%s'] receives the permitted alphabet" % (codec, kind), 'ok' if ok else 'VIOLATION', node=cell.ctor, file=tab.rel)
            if not ok:
                ctx.violation('C05.R4', tab.rel, cell.ctor or tab.func, "%s::Compiler dispatch['%s']" % (tab.rel, kind),
                              'the FROM constraint of %s no longer reaches the class: characters are packed with the full alphabet width' % kind, stmt="alphabet for '%s'" % kind)
        tail = ' '.join(ast.unparse(s) for s in tab.tail)
        ok = "'restricted-to' in type_descriptor" in tail and 'set_compiled_restricted_to' in tail
        ctx.instance('C05.R4', '%s tail applies restricted-to' % codec, 'ok' if ok else 'VIOLATION', node=tab.func, file=tab.rel)
        if not ok:
            ctx.violation('C05.R4', tab.rel, tab.func, '%s::Compiler.compile_type' % tab.rel, 'value ranges are no longer applied after the dispatch', stmt='restricted-to tail')

    # ---- R5
    init = model.cls(PER, 'Enumerated').methods['__init__']
    src = ast.unparse(init)
    ok = 'root = sorted(root, key=itemgetter(1))' in src
    sorted_add = any(isinstance(n, ast.Assign) and ast.unparse(n.targets[0]) == 'additions' and 'sorted(' in ast.unparse(n.value) for n in walk_no_nested(init))
    ctx.instance('C05.R5', 'per.Enumerated: root sorted by value, additions unsorted', 'ok' if ok and not sorted_add else 'VIOLATION', node=init, file=PER)
    if not ok or sorted_add:
        ctx.violation('C05.R5', PER, init, Model.qual(init), 'X.691 14: the enumeration root is indexed in ascending value order, the additions in declaration order', stmt='enumeration index order')

    # ---- R6
    n6 = 0
    for rel in (PER, UPER):
        for c in protocol.stream_classes(model, rel):
            r = protocol.analyse_pair(c, model, cap=None if ctx.tier == 'thorough' else 256)
            n6 += 1
            ok = r['status'] != 'MISMATCH'
            ctx.instance('C05.R6', c.qname, 'conformant' if ok else 'VIOLATION', node=c.node, file=rel)
            if not ok:
                asg, e, D = r['problems'][0]
                enc_ = c.find_method('encode')
                ctx.violation('C05.R6', enc_[0].mod.rel, enc_[1], '%s::%s.encode <-> decode' % (enc_[0].mod.rel, enc_[0].name),
                              'the decoder of %s does not accept the bit string its encoder emits: %s' % (c.qname, protocol.show_path(e)), stmt='encode/decode token paths differ')
    if n6 < 55:
        raise AnalysisError('C05.R6 analysed only %d classes' % n6)

    # ---- R7
    obs = siblings.emptiness_observers(model, PER)
    bad = siblings.flush_after_append(enc)
    ctx.instance('C05.R7', 'per.Encoder: %d emptiness observers, %d flush-after-append sites' % (len(obs), len(bad)), 'ok' if not (obs and bad) else 'VIOLATION', node=enc.node, file=PER)
    if obs and bad:
        for f, z in bad:
            ctx.violation('C05.R7', PER, z, Model.qual(f),
                          '`self.number_of_bits = 0` after the append: the count can be 0 although bits were written, and %s reads `number_of_bits > 0` as '
                          '"addition present" -- a present extension addition group is dropped from the encoding' % Model.qual(obs[0][0]), stmt='flush after append')


MUTANTS = [
    dict(name='decoder: range <= 255 becomes < 255', file=PER, quick=True,
         old="""        _range = (maximum - minimum + 1)

        if _range <= 255:
            value = self.read_non_negative_binary_integer(number_of_bits)""",
         new="""        _range = (maximum - minimum + 1)

        if _range < 255:
            value = self.read_non_negative_binary_integer(number_of_bits)""", expect='C05.R1'),
    dict(name='fragment marker 0xc3 -> 49153', file=PER, quick=True, old="                    0xc3: 49152,", new="                    0xc3: 49153,", expect='C05.R1'),
    dict(name='uper SET no longer sorted', file=UPER, quick=True,
         old="""                                      module_name,
                                      sort_by_tag=True))""", new="""                                      module_name))""", expect='C05.R3'),
    dict(name='uper.ArrayType.encode writes an aligned length', file=UPER,
         old="""        elif self.minimum != self.maximum:
            encoder.append_non_negative_binary_integer(len(data) - self.minimum,
                                                       self.number_of_bits)

        for entry in data:
            self.element_type.encode(entry, encoder)""",
         new="""        elif self.minimum != self.maximum:
            encoder.append_length_determinant(len(data) - self.minimum)

        for entry in data:
            self.element_type.encode(entry, encoder)""", expect=['C05.R2', 'C05.R6']),
    dict(name='IA5String loses permitted_alphabet', file=PER,
         old="""            compiled = IA5String(name,
                                 *self.get_size_range(type_descriptor,
                                                      module_name),
                                 permitted_alphabet=permitted_alphabet)""",
         new="""            compiled = IA5String(name,
                                 *self.get_size_range(type_descriptor,
                                                      module_name))""", expect='C05.R4'),
    dict(name='enumeration root not sorted', file=PER, old="        root = sorted(root, key=itemgetter(1))\n", new="", expect='C05.R5'),
    dict(name='normally small length off by one', file=PER, old="            return self.read_non_negative_binary_integer(6) + 1", new="            return self.read_non_negative_binary_integer(6)", expect='C05.R1'),
    dict(name='encoder aligns before small ranges', file=PER,
         old="""        if _range <= 255:
            self.append_non_negative_binary_integer(value, number_of_bits)
        elif _range == 256:""", new="""        if _range <= 255:
            self.align_always()
            self.append_non_negative_binary_integer(value, number_of_bits)
        elif _range == 256:""", expect='C05.R1'),
]
REFACTORS = []
