"""C05 -- PER/UPER bit-exact X.691 (table agreement; DESIGN.md section 4 C05)."""
import ast

from ..model import AnalysisError, Model, walk_no_nested, norm_stmt
from .. import flow, protocol, dispatch, siblings, evalexpr, sem, bitmachine, defaults

EXPLANATION = (
    'Decided: (R1) the Encoder/Decoder primitive pairs of per.py use the same boundary tables and these equal the X.691 constants: constrained '
    'whole number {<=255 bit-field, ==256 one aligned octet, <=65536 two aligned octets, else aligned field} on both sides (11.5.7); length '
    'determinant {128, 16384} and the fragment markers 0xC1..0xC4 <-> 16K..64K written by the encoder equal the table read by the decoder '
    '(11.9); normally small non-negative whole number {64; 7 bits / 1+6 bits} (11.6); normally small length {64: 7 bits, 127: 9 bits / 6 bits+1, '
    '7 bits}; (R2) every method uper.py overrides emits only field shapes its PER parent has once alignment is removed and constrained whole '
    'numbers are read as plain fields (X.691 unaligned variant); uper align() is the empty override; (R3) SET is compiled sorted by (class '
    'priority, number) with UNIVERSAL < APPLICATION < CONTEXT < PRIVATE; (R4) PER-visible constraints reach the classes: size ranges, permitted '
    'alphabets, restricted-to in the tail; (R5) the ENUMERATED root is sorted by value before indexing, additions keep their order; (R6) E1 '
    'conformance of the per/uper classes (shared with C01.R1); (R7) number_of_bits of an Encoder is not zeroed after an append (it is read as '
    '"addition present" by the extension encoder).  Not decided: bit-exactness for all types and values; field contents; the permitted-alphabet '
    're-indexing rule; sizes above 64K.')
PER = 'asn1tools/codecs/per.py'
UPER = 'asn1tools/codecs/uper.py'
KM_STRINGS = ['NumericString', 'PrintableString', 'IA5String', 'BMPString', 'VisibleString']
SIZE_KINDS = ['SEQUENCE OF', 'SET OF', 'OCTET STRING', 'BIT STRING'] + KM_STRINGS

# ---------------------------------------------------------------- X.691 reference (the oracle of R1)
def ref_cwn(prefix, value, minimum, maximum, nb):
    """X.691 11.5.7 (aligned variant) for a constrained whole number whose field width nb the caller computed."""
    rng = maximum - minimum + 1
    v = value - minimum
    bits = prefix
    if rng <= 255:
        return bits + (format(v, '0%db' % nb) if nb else '')
    bits += '0' * (-len(bits) % 8)
    if rng == 256:
        return bits + format(v, '08b')
    if rng <= 65536:
        return bits + format(v, '016b')
    return bits + format(v, '0%db' % nb)


def ref_length_determinant(n):
    """X.691 11.9.3.6-8 -> (octets as a bit string, number of items covered by this determinant)"""
    if n < 128:
        return format(n, '08b'), n
    if n < 16384:
        return format(0x8000 | n, '016b'), n
    k = min(n // 16384, 4)
    return format(0xc0 | k, '08b'), k * 16384


def ref_nsnnwn_small(v):
    """X.691 11.6.1: 0..63 -> a zero bit and a 6-bit field"""
    return '0' + format(v, '06b')


def ref_normally_small_length(n):
    """X.691 11.9.3.4: 1..64 -> 0 + (n-1) in 6 bits; above: 1 followed by the general length determinant"""
    if n <= 64:
        return '0' + format(n - 1, '06b')
    return '1' + ref_length_determinant(n)[0]


PAD = '10' * 40        # what follows the encoding in the stream: a decoder that reads too much does not run dry
CWN_RANGES = [1, 2, 3, 128, 254, 255, 256, 257, 1000, 65535, 65536, 65537, 2 ** 24, 2 ** 32]
LENGTHS = [0, 1, 2, 126, 127, 128, 129, 255, 256, 16382, 16383, 16384, 16385, 32767, 32768, 32769, 49151, 49152, 49153, 65535, 65536, 65537, 100000, 2 ** 20]


def ints_in(f):
    return sorted({n.value for n in ast.walk(f) if isinstance(n, ast.Constant) and isinstance(n.value, int) and not isinstance(n.value, bool)})


def normp(p):
    out = []
    for t in p:
        if t[0] == 'ALIGN':
            continue
        if t[0] == 'CWN':
            t = ('FIELD', t[-1])
        if t[0] in ('LOOP', 'CHUNKS', 'WHILE'):
            t = (t[0], frozenset(normp(b) for b in t[1]))
        out.append(t)
    return tuple(out)


def check(ctx):
    model = ctx.model
    per = model.mod(PER)
    enc = model.cls(PER, 'Encoder')
    dec = model.cls(PER, 'Decoder')
    ctx.rule('C05.R1', 'Encoder/Decoder primitive tables agree with each other and with the X.691 constants')
    ctx.rule('C05.R2', 'UPER overrides = PER parents minus alignment (CWN read as FIELD); uper align() is empty')
    ctx.rule('C05.R3', "SET compiled sorted by (class priority, tag number); CLASS_PRIO order")
    ctx.rule('C05.R4', 'PER-visible constraints reach the classes (size, permitted alphabet, restricted-to)')
    ctx.rule('C05.R5', 'ENUMERATED root sorted by value before indexing; additions keep declaration order')
    ctx.rule('C05.R6', 'E1 conformance of per/uper classes')
    ctx.rule('C05.R7', 'Encoder.number_of_bits not zeroed after an append')
    ctx.rule('C05.R9', 'compile-time copy discipline: only owned (constructed or copied) compiled objects are configured')
    ctx.rule('C05.R8', 'INTEGER type-level encodings on boundary constraints and values equal X.691 (bounded evaluation), decoder reads them back')

    # ---- R1: the derived primitives are evaluated (sa/bitmachine.py) on boundary arguments; the emitted bits must equal X.691
    #          and the Decoder primitive must read back the same value from them
    E = bitmachine.Machine(model, enc, 'enc')
    D = bitmachine.Machine(model, dec, 'dec')

    def r1(what, node, cases):
        """cases: iterable of (label, thunk) ; thunk() -> None when fine, else a message"""
        n_ok = n_und = 0
        first_bad = None
        und = None
        for label, thunk in cases:
            try:
                msg = thunk()
            except bitmachine.Misfit as e:
                msg = 'the primitive %s (it overwrites the bits written before)' % e
            except bitmachine.Undecided as e:
                n_und += 1
                und = und or '%s: %s' % (label, e)
                continue
            except bitmachine.Raised as e:
                msg = 'raises %s' % e.name
            if msg is None:
                n_ok += 1
            elif first_bad is None:
                first_bad = (label, msg)
        status = 'VIOLATION' if first_bad else ('ok' if n_ok else 'undecided')
        ctx.instance('C05.R1', '%s: %d boundary cases evaluated, %d undecided' % (what, n_ok, n_und), status, und or '', nontrivial=n_ok > 0, node=node, file=PER)
        if und and not first_bad:
            ctx.note('C05.R1 %s undecided: %s' % (what, und))
        if first_bad:
            ctx.violation('C05.R1', PER, node, Model.qual(node), '%s, %s: %s' % (what, first_bad[0], first_bad[1]), stmt=what)

    fe = enc.methods.get('append_constrained_whole_number')
    fd = dec.methods.get('read_constrained_whole_number')
    if fe is None or fd is None:
        raise AnalysisError('constrained whole number primitives vanished')

    def cwn_case(rng, value, minimum, prefix):
        def thunk():
            maximum = minimum + rng - 1
            nb = (rng - 1).bit_length()
            bits, _ = E.run('append_constrained_whole_number', [value, minimum, maximum, nb], prefix)
            want = ref_cwn(prefix, value, minimum, maximum, nb)
            if bits != want:
                return 'X.691 11.5.7 prescribes %s after the prefix %s, the encoder emits %s' % (want[len(prefix):] or '(nothing)', prefix, bits[len(prefix):] or '(nothing)')
            got, pos = D.run('read_constrained_whole_number', [minimum, maximum, nb], want + PAD, len(prefix))
            if got != value or pos != len(want):
                return 'the decoder reads %r (ending at bit %d) from the %d-bit encoding of %d' % (got, pos, len(want), value)
            return None
        return thunk
    cases = []
    for rng in CWN_RANGES:
        for minimum in (0, 5, -3):
            for value in sorted({minimum, minimum + rng - 1, minimum + (rng - 1) // 2}):
                cases.append(('range %d, value %d in %d..%d' % (rng, value, minimum, minimum + rng - 1), cwn_case(rng, value, minimum, '101')))
    r1('constrained whole number', fe, cases)

    fe = enc.methods['append_length_determinant']
    fd = dec.methods['read_length_determinant']

    def ld_case(n):
        def thunk():
            bits, ret = E.run('append_length_determinant', [n], '')
            want, covered = ref_length_determinant(n)
            if bits != want or ret != covered:
                return 'X.691 11.9 prescribes %s covering %d items, the encoder emits %s and reports %r' % (want, covered, bits, ret)
            got, pos = D.run('read_length_determinant', [], want + PAD, 0)
            if got != covered or pos != len(want):
                return 'the decoder reads %r (ending at bit %d) from %s' % (got, pos, want)
            return None
        return thunk
    r1('length determinant', fe, [('length %d' % n, ld_case(n)) for n in LENGTHS])

    def ld_invalid(first):
        def thunk():
            try:
                got, pos = D.run('read_length_determinant', [], format(first, '08b') + '00000000', 0)
            except bitmachine.Raised:
                return None
            return 'the reserved first octet 0x%02x is accepted as length %r' % (first, got)
        return thunk
    r1('length determinant, reserved fragment octets', fd, [('octet 0x%02x' % v, ld_invalid(v)) for v in (0xc0, 0xc5, 0xc8, 0xff)])

    # the chunk generators continue exactly while the fragment covers 16K items or more
    for c_, nm in ((enc, 'append_length_determinant_chunks'), (dec, 'read_length_determinant_chunks')):
        f = c_.methods[nm]
        ps = sem.paths(f)
        stops = []
        for p in sem.with_loop_bodies(ps or []):
            if p.outcome[0] == 'break' and p.conds and len(p.conds[-1]) >= 6:
                stops.append(p.conds[-1])
        ok = None
        def holds(c, v):
            """truth of the literal when its non-constant operand has the value v (None: not of that form)"""
            e = c[4]
            if not (isinstance(e, ast.Compare) and len(e.ops) == 1):
                return None
            l, r = e.left, e.comparators[0]
            if evalexpr.const_int(r) is not None and evalexpr.const_int(l) is None:
                t = ast.Compare(ast.Constant(v), e.ops, [r])
            elif evalexpr.const_int(l) is not None and evalexpr.const_int(r) is None:
                t = ast.Compare(l, e.ops, [ast.Constant(v)])
            else:
                return None
            return bool(evalexpr.ev(t, {})) == c[5]
        for c in stops:
            vals = [holds(c, v) for v in (0, 16383, 16384, 65536)]
            if None in vals:
                continue
            ok = vals == [True, True, False, False]
        ctx.instance('C05.R1', '%s stops after a fragment shorter than 16K' % Model.qual(f), 'ok' if ok else ('undecided' if ok is None else 'VIOLATION'), nontrivial=ok is not None, node=f, file=PER)
        if ok is False:
            ctx.violation('C05.R1', PER, f, Model.qual(f), 'fragmentation must continue exactly while the fragment length is >= 16384', stmt='chunk stop test')

    # ---- R1 normally small
    fe = enc.methods['append_normally_small_non_negative_whole_number']

    def ns_case(v):
        def thunk():
            bits, _ = E.run('append_normally_small_non_negative_whole_number', [v], '')
            if v < 64 and bits != ref_nsnnwn_small(v):
                return 'X.691 11.6.1 prescribes %s, the encoder emits %s' % (ref_nsnnwn_small(v), bits)
            if v >= 64 and not bits.startswith('1'):
                return 'values above 63 must start with a 1 bit, the encoder emits %s' % bits
            got, pos = D.run('read_normally_small_non_negative_whole_number', [], bits + PAD, 0)
            if got != v or pos != len(bits):
                return 'the decoder reads %r (ending at bit %d) from the %d-bit encoding %s' % (got, pos, len(bits), bits)
            return None
        return thunk
    r1('normally small non-negative whole number', fe, [('value %d' % v, ns_case(v)) for v in (0, 1, 2, 31, 62, 63, 64, 65, 127, 128, 255, 256, 65535, 65536)])
    fe = enc.methods['append_normally_small_length']

    def nsl_case(n):
        def thunk():
            bits, _ = E.run('append_normally_small_length', [n], '')
            if bits != ref_normally_small_length(n):
                return 'X.691 11.9.3.4 prescribes %s, the encoder emits %s' % (ref_normally_small_length(n), bits)
            got, pos = D.run('read_normally_small_length', [], bits + PAD, 0)
            if got != n or pos != len(bits):
                return 'the decoder reads %r (ending at bit %d) from %s' % (got, pos, bits)
            return None
        return thunk
    r1('normally small length', fe, [('length %d' % n, nsl_case(n)) for n in (1, 2, 32, 63, 64, 65, 66, 100, 126, 127)])

    # bit fields: append_bits(data, n) writes the first n bits of data (the value may carry more octets than n bits need: the type checker asks for
    # "at least n bits"); read_bits(n) returns them left-aligned in ceil(n / 8) octets
    fe = enc.methods.get('append_bits')
    if fe is not None:
        n_ok, n_und, bad_, und_ = bitmachine.check_append_bits(model, enc)
        ctx.instance('C05.R1', 'bit field (append_bits): %d cases evaluated, %d undecided' % (n_ok, n_und), 'VIOLATION' if bad_ else ('ok' if n_ok else 'undecided'), und_ or '',
                     nontrivial=n_ok > 0, node=fe, file=PER)
        if bad_:
            ctx.violation('C05.R1', PER, fe, Model.qual(fe), 'bit field (append_bits), %s: %s' % bad_, stmt='bit field (append_bits)')

    # ---- R2
    upm = model.mod(UPER)
    for side_cls in ('Encoder', 'Decoder'):
        c = upm.classes.get(side_cls)
        f = c.methods.get('align') if c else None
        ok = f is not None and all(isinstance(s, ast.Pass) or (isinstance(s, ast.Expr) and isinstance(s.value, ast.Constant)) for s in f.body)
        ctx.instance('C05.R2', 'uper.%s.align is empty' % side_cls, 'ok' if ok else 'VIOLATION', node=f or upm.tree, file=UPER)
        if not ok:
            ctx.violation('C05.R2', UPER, f or upm.tree.body[0], 'uper.%s.align' % side_cls, 'the unaligned variant must not insert padding: uper.%s.align must stay empty' % side_cls, stmt='uper align')
    n2 = 0
    for uc in upm.classes.values():
        parents = [b for b in uc.bases if b.mod.rel == PER]
        # the sibling is the PER class of the same name, else the PER base class
        pc = per.classes.get(uc.name) or (parents[0] if parents else None)
        if pc is None or uc.name in ('Encoder', 'Decoder', 'Compiler', 'CompiledType'):
            continue
        for meth, side in (('encode', 'enc'), ('decode', 'dec')):
            if meth not in uc.methods:
                continue
            if len(uc.methods[meth].args.args) != (3 if side == 'enc' else 2):
                continue
            n2 += 1
            try:
                _ua, up = protocol.token_paths(uc, model, meth, side)
                _pa, pp = protocol.token_paths(pc, model, meth, side)
            except protocol.Abort as e:
                ctx.instance('C05.R2', '%s.%s' % (uc.qname, meth), 'not-analysed', str(e), nontrivial=False)
                continue
            U = set(normp(x) for v in up.values() for x in v)
            P = set(normp(x) for v in pp.values() for x in v)
            miss = [x for x in U if not any(protocol.seq_match(x, y) or protocol.seq_match(y, x) for y in P)]
            ctx.instance('C05.R2', '%s.%s: %d shapes, all among the %d PER shapes minus alignment' % (uc.qname, meth, len(U), len(P)), 'ok' if not miss else 'VIOLATION',
                         node=uc.methods[meth], file=UPER)
            if miss:
                ctx.violation('C05.R2', UPER, uc.methods[meth], '%s::%s.%s' % (UPER, uc.name, meth),
                              'the UPER override emits a field shape its PER parent does not have even after removing alignment: %s' % protocol.show_path(miss[0]),
                              stmt='uper shape not in per')
    if n2 < 4:        # (a refactoring that moves the UPER differences into hooks of the PER classes leaves few overrides: six in the T2 patch)
        raise AnalysisError('C05.R2 compared only %d uper overrides' % n2)

    # ---- R3: the SET cell hands a true flag to a members compiler that sorts under that flag
    def true_flags(call, callee):
        """parameter names of callee that this call binds to the constant True (keywords, **{..} displays, positionals)"""
        out = set()
        for k in call.keywords:
            if k.arg is not None and isinstance(k.value, ast.Constant) and k.value.value is True:
                out.add(k.arg)
            elif k.arg is None and isinstance(k.value, ast.Dict):
                for kk, vv in zip(k.value.keys, k.value.values):
                    if isinstance(kk, ast.Constant) and isinstance(vv, ast.Constant) and vv.value is True:
                        out.add(kk.value)
        params = [a_.arg for a_ in callee.args.args][1:]
        for pn, a_ in zip(params, call.args):
            if isinstance(a_, ast.Constant) and a_.value is True:
                out.add(pn)
        return out

    def sorts_in(g, res, depth=0):
        for n in walk_no_nested(g):
            if isinstance(n, ast.Call):
                if (isinstance(n.func, ast.Name) and n.func.id == 'sorted') or (isinstance(n.func, ast.Attribute) and n.func.attr == 'sort'):
                    return True
                h = res(n) if depth < 2 else None
                if h is not None and h is not g and sorts_in(h, res, depth + 1):
                    return True
        return False

    for codec in ('per', 'uper'):
        tab = dispatch.table(model, codec)
        cell = tab.cells.get('SET')
        comp = model.cls(tab.rel, 'Compiler')
        res = sem.class_resolver(comp)
        verdict, why = 'VIOLATION', 'the SET cell calls no members compiler with a true flag under which the members are sorted'
        for st_ in cell.body:
            for n in ast.walk(st_):
                if not isinstance(n, ast.Call):
                    continue
                g = res(n)
                if g is None:
                    continue
                flags = true_flags(n, g)
                if not flags:
                    continue
                ps = sem.paths(g, resolver=res)
                if ps is None:
                    verdict, why = 'undecided', '%s has too many paths' % g.name
                    continue
                for p_, conds, node, sx in defaults.call_events(ps):
                    is_sort = (isinstance(node.func, ast.Name) and node.func.id == 'sorted') or (isinstance(node.func, ast.Attribute) and node.func.attr == 'sort')
                    if not is_sort:
                        h = res(node)
                        is_sort = h is not None and h is not g and sorts_in(h, res)
                    if is_sort and any(c[0] in flags and c[1] for c in conds):
                        verdict, why = 'ok', '%s sorts under %s' % (g.name, '/'.join(sorted(flags)))
        ctx.instance('C05.R3', "%s dispatch 'SET' has its members sorted" % codec, verdict, why, node=cell.ctor, file=tab.rel)
        if verdict == 'VIOLATION':
            ctx.violation('C05.R3', tab.rel, cell.ctor or tab.func, "%s::Compiler dispatch['SET']" % tab.rel, 'SET components are no longer put into canonical tag order (X.691 22 / X.680 8.6): ' + why, stmt='SET sort_by_tag')
    if 'CLASS_PRIO' not in per.consts:
        raise AnalysisError('per.CLASS_PRIO vanished')
    prio = per.const_value('CLASS_PRIO')
    ok = prio.get('UNIVERSAL') < prio.get('APPLICATION') < prio.get('CONTEXT_SPECIFIC') < prio.get('PRIVATE')
    ctx.instance('C05.R3', 'CLASS_PRIO %s' % prio, 'ok' if ok else 'VIOLATION', node=per.consts['CLASS_PRIO'], file=PER)
    if not ok:
        ctx.violation('C05.R3', PER, per.consts['CLASS_PRIO'], 'per.CLASS_PRIO', 'tag class order must be UNIVERSAL < APPLICATION < CONTEXT_SPECIFIC < PRIVATE (X.680 8.6)', stmt='CLASS_PRIO')

    # ---- R4
    for codec in ('per', 'uper'):
        tab = dispatch.table(model, codec)
        for kind in SIZE_KINDS:
            cell = tab.cells.get(kind)
            args = ' '.join(cell.arg_src()) if cell is not None else ''
            ok = 'self.get_size_range(' in args
            ctx.instance('C05.R4', "%s['%s'] receives the size range" % (codec, kind), 'ok' if ok else 'VIOLATION', node=cell.ctor if cell else tab.func, file=tab.rel)
            if not ok:
                ctx.violation('C05.R4', tab.rel, cell.ctor if cell and cell.ctor else tab.func, "%s::Compiler dispatch['%s']" % (tab.rel, kind),
                              "the SIZE constraint of %s no longer reaches the %s class: length fields are encoded as for an unconstrained type" % (kind, codec), stmt="size for '%s'" % kind)
        for kind in KM_STRINGS:
            cell = tab.cells.get(kind)
            src = ' '.join(ast.unparse(s) for s in cell.body)
            ok = 'permitted_alphabet=' in ' '.join(cell.arg_src()) and 'get_permitted_alphabet(' in src
            ctx.instance('C05.R4', "%s['%s'] receives the permitted alphabet" % (codec, kind), 'ok' if ok else 'VIOLATION', node=cell.ctor, file=tab.rel)
            if not ok:
                ctx.violation('C05.R4', tab.rel, cell.ctor or tab.func, "%s::Compiler dispatch['%s']" % (tab.rel, kind),
                              'the FROM constraint of %s no longer reaches the class: characters are packed with the full alphabet width' % kind, stmt="alphabet for '%s'" % kind)
        tail = ' '.join(ast.unparse(s) for s in tab.tail)
        ok = "'restricted-to' in type_descriptor" in tail and 'set_compiled_restricted_to' in tail
        ctx.instance('C05.R4', '%s tail applies restricted-to' % codec, 'ok' if ok else 'VIOLATION', node=tab.func, file=tab.rel)
        if not ok:
            ctx.violation('C05.R4', tab.rel, tab.func, '%s::Compiler.compile_type' % tab.rel, 'value ranges are no longer applied after the dispatch', stmt='restricted-to tail')

    # ---- R5
    init = model.cls(PER, 'Enumerated').methods['__init__']
    def by_value(call):
        for k in call.keywords:
            if k.arg == 'key':
                t = ast.unparse(k.value).replace(' ', '')
                if t in ('itemgetter(1)', 'operator.itemgetter(1)') or (isinstance(k.value, ast.Lambda) and ast.unparse(k.value.body).endswith('[1]')):
                    return True
        return False
    sorts = [n for n in walk_no_nested(init) if isinstance(n, ast.Call) and ((isinstance(n.func, ast.Name) and n.func.id == 'sorted') or (isinstance(n.func, ast.Attribute) and n.func.attr == 'sort'))]
    def subject(call):
        return ast.unparse(call.args[0]) if isinstance(call.func, ast.Name) and call.args else (ast.unparse(call.func.value) if isinstance(call.func, ast.Attribute) else '')
    ok = any(by_value(n) and 'addition' not in subject(n) for n in sorts)
    sorted_add = any('addition' in subject(n) for n in sorts)
    ctx.instance('C05.R5', 'per.Enumerated: root sorted by value, additions unsorted', 'ok' if ok and not sorted_add else 'VIOLATION', node=init, file=PER)
    if not ok or sorted_add:
        ctx.violation('C05.R5', PER, init, Model.qual(init), 'X.691 14: the enumeration root is indexed in ascending value order, the additions in declaration order', stmt='enumeration index order')

    # ---- R6
    n6 = 0
    for rel in (PER, UPER):
        for c in protocol.stream_classes(model, rel):
            r = protocol.analyse_pair(c, model, cap=None if ctx.tier == 'thorough' else 256)
            n6 += 1
            ok = r['status'] != 'MISMATCH'
            ctx.instance('C05.R6', c.qname, 'conformant' if ok else 'VIOLATION', node=c.node, file=rel)
            if not ok:
                asg, e, D = r['problems'][0]
                enc_ = c.find_method('encode')
                ctx.violation('C05.R6', enc_[0].mod.rel, enc_[1], '%s::%s.encode <-> decode' % (enc_[0].mod.rel, enc_[0].name),
                              'the decoder of %s does not accept the bit string its encoder emits: %s' % (c.qname, protocol.show_path(e)), stmt='encode/decode token paths differ')
    if n6 < 55:
        raise AnalysisError('C05.R6 analysed only %d classes' % n6)

    # ---- R7
    obs = siblings.emptiness_observers(model, PER)
    bad = siblings.flush_after_append(enc)
    ctx.instance('C05.R7', 'per.Encoder: %d emptiness observers, %d flush-after-append sites' % (len(obs), len(bad)), 'ok' if not (obs and bad) else 'VIOLATION', node=enc.node, file=PER)
    if obs and bad:
        for f, z in bad:
            ctx.violation('C05.R7', PER, z, Model.qual(f),
                          '`self.number_of_bits = 0` after the append: the count can be 0 although bits were written, and %s reads `number_of_bits > 0` as '
                          '"addition present" -- a present extension addition group is dropped from the encoding' % Model.qual(obs[0][0]), stmt='flush after append')


    # ---- R8: INTEGER at the type level.  The attributes set_restricted_to_range derives for a constraint are computed with the
    #          checker's evaluator, Integer.encode / decode are evaluated on them (bit machine) and compared with X.691 11.5 / 13.
    def twos(v):
        n = 1
        while not (-(1 << (8 * n - 1)) <= v < (1 << (8 * n - 1))):
            n += 1
        return n, format(v & ((1 << (8 * n)) - 1), '0%db' % (8 * n))

    def ref_integer(prefix, lb, ub, ext, v, aligned):
        bits = prefix
        def align():
            return '0' * (-len(bits) % 8) if aligned else ''
        if ext:
            inside = (lb == 'MIN' or lb <= v) and (ub == 'MAX' or v <= ub)
            bits += '0' if inside else '1'
            if not inside:
                bits += align()
                n, body = twos(v)
                return bits + ref_length_determinant(n)[0] + body
        if lb == 'MIN':
            bits += align()
            n, body = twos(v)
            return bits + ref_length_determinant(n)[0] + body
        if ub == 'MAX':
            # semi-constrained: offset from the lower bound as a non-negative binary integer in the fewest octets (X.691 11.7)
            bits += align()
            off = v - lb
            n = max(1, (off.bit_length() + 7) // 8)
            return bits + ref_length_determinant(n)[0] + format(off, '0%db' % (8 * n))
        rng = ub - lb + 1
        off = v - lb
        nb = (rng - 1).bit_length()
        if rng == 1:
            return bits
        if not aligned or rng <= 255:
            return bits + format(off, '0%db' % nb)
        if rng == 256:
            bits += align()
            return bits + format(off, '08b')
        if rng <= 65536:
            bits += align()
            return bits + format(off, '016b')
        # indefinite length case: number of octets L in 1..M as a constrained whole number, then the octets aligned
        M = (nb + 7) // 8
        L = max(1, (off.bit_length() + 7) // 8)
        lbits = (M - 1).bit_length()
        bits += format(L - 1, '0%db' % lbits) if lbits else ''
        bits += align()
        return bits + format(off, '0%db' % (8 * L))

    INT_CASES = []
    for lb, ub in ((0, 0), (0, 1), (0, 7), (3, 10), (-8, 7), (0, 254), (0, 255), (1, 256), (0, 256), (0, 65535), (0, 65536), (-70000, 70000),
                   (0, 2 ** 24), (0, 2 ** 32 - 1), (0, 2 ** 32), (-2 ** 63, 2 ** 63 - 1), (0, 'MAX'), (1, 'MAX'), (-5, 'MAX'), ('MIN', 5), ('MIN', 'MAX')):
        lo = lb if lb != 'MIN' else -2 ** 20
        hi = ub if ub != 'MAX' else 2 ** 20
        vals = sorted({lo, hi, (lo + hi) // 2, min(hi, lo + 1), min(hi, lo + 127), min(hi, lo + 128), min(hi, lo + 255), min(hi, lo + 256), min(hi, lo + 65535), min(hi, lo + 65536)})
        for v in vals:
            INT_CASES.append((lb, ub, False, v))
    for lb, ub, v in ((0, 7, 5), (0, 7, 8), (0, 7, -1), (0, 7, 1000), (0, 255, 256), (1, 256, 0), (0, 65536, 70000), (0, 65536, 3)):
        INT_CASES.append((lb, ub, True, v))
    SUB_CASES = []
    for parent, (lb, ub), vals in (((0, 255, False), (200, 'MAX'), (200, 210, 255)), ((0, 255, False), ('MIN', 100), (0, 50, 100)), ((0, 255, False), (10, 20), (10, 15, 20)),
                                   ((5, 'MAX', False), ('MIN', 100), (5, 6, 100)), ((0, 65535, False), (65000, 'MAX'), (65000, 65535)), ((0, 255, False), ('MIN', 'MAX'), (0, 128, 255)),
                                   ((-100, 100, False), (0, 'MAX'), (0, 1, 100))):
        for v in vals:
            SUB_CASES.append((lb, ub, False, v, parent))
    for rel, aligned in ((PER, True), (UPER, False)):
        cm = model.mod(rel)
        icls = cm.classes.get('Integer')
        if icls is None:
            raise AnalysisError('%s: Integer class vanished' % rel)
        init = icls.find_method('__init__')[1]
        srr = icls.find_method('set_restricted_to_range')[1]
        fe, fd = icls.find_method('encode')[1], icls.find_method('decode')[1]
        Em = bitmachine.Machine(model, cm.classes.get('Encoder') or enc, 'enc', align_noop=not aligned)
        Dm = bitmachine.Machine(model, cm.classes.get('Decoder') or dec, 'dec', align_noop=not aligned)
        pe, pd = flow.param_names(fe), flow.param_names(fd)

        def config(lb, ub, ext, parent=None):
            def run_cfg(fn_, env_):
                # the statements of a constructor / setter that call a step of the object (set_constrained_size) are evaluated; only when that is beyond the
                # evaluator are call statements skipped
                try:
                    return evalexpr.run_function(fn_, dict(env_), skip_super=True)
                except evalexpr.Unsupported:
                    return evalexpr.run_function(fn_, dict(env_), skip_calls=True)
            _r, env = run_cfg(init, {flow.param_names(init)[1]: 'x', '__funcs__': bitmachine.module_funcs(init), '__cls__': icls})
            sp = flow.param_names(srr)[1:]
            # a subtype of an already constrained parent: the parent's range is applied first, then the subtype's on the same object (that is what the
            # compilers do with the copy of the referenced type)
            for lb_, ub_, ext_ in ([parent] if parent else []) + [(lb, ub, ext)]:
                env = {k: v_ for k, v_ in env.items() if k.startswith('self.')}
                env.update(dict(zip(sp, (lb_, ub_, ext_))))
                env['__funcs__'] = bitmachine.module_funcs(srr)
                env['__cls__'] = icls
                _r, env = run_cfg(srr, env)
            cfg_ = {k: v_ for k, v_ in env.items() if k.startswith('self.')}
            cfg_['__cls__'] = icls
            return cfg_
        n_ok = n_und = 0
        first_bad = und = None
        groups = {}
        for case in INT_CASES + SUB_CASES:
            lb, ub, ext, v = case[:4]
            parent = case[4] if len(case) > 4 else None
            label = 'INTEGER (%s..%s%s) value %d' % (lb, ub, ', ...' if ext else '', v)
            elb, eub = lb, ub
            if parent is not None:
                # X.680 51.4.x: MIN / MAX in a subtype denote the bounds of the parent type; X.691 10.3: the effective constraint is what counts
                elb = parent[0] if lb == 'MIN' else lb
                eub = parent[1] if ub == 'MAX' else ub
                label = 'A ::= INTEGER (%s..%s), B ::= A (%s..%s), value %d of B' % (parent[0], parent[1], lb, ub, v)
            try:
                cfg = config(lb, ub, ext, parent)
                bits, _ = Em.run_fn(fe, pe[2], [v, None], cfg, '101')
                want = ref_integer('101', elb, eub, ext, v, aligned)
                msg = None
                if bits != want:
                    msg = 'X.691 prescribes %s after the 3-bit prefix, the encoder emits %s' % (want[3:] or '(nothing)', bits[3:] or '(nothing)')
                else:
                    got, pos = Dm.run_fn(fd, pd[1], [None], cfg, want + PAD, 3)
                    if got != v or pos != len(want):
                        msg = 'the decoder reads %r (ending at bit %d) from the %d-bit encoding' % (got, pos, len(want))
            except (evalexpr.Unsupported, bitmachine.Undecided, KeyError, TypeError) as e:
                n_und += 1
                und = und or '%s: %s' % (label, e)
                continue
            except (bitmachine.Raised, evalexpr.Raised) as e:
                msg = 'raises %s' % getattr(e, 'name', 'an error')
            if msg is None:
                n_ok += 1
            else:
                kind = 'subtype of a constrained parent' if parent is not None else \
                    'semi-constrained (lb..MAX)' if ub == 'MAX' and lb != 'MIN' else ('extensible' if ext else 'constrained' if ub != 'MAX' and lb != 'MIN' else 'unconstrained')
                groups.setdefault(kind, (label, msg))
        ctx.instance('C05.R8', '%s.Integer: %d (constraint, value) cases evaluated, %d undecided' % (cm.short, n_ok, n_und), 'VIOLATION' if groups else ('ok' if n_ok else 'undecided'), und or '',
                     nontrivial=n_ok > 0, node=fe, file=rel)
        for kind, (label, msg) in sorted(groups.items()):
            ctx.violation('C05.R8', rel, fe, '%s::Integer.encode [%s]' % (rel, kind), '%s: %s' % (label, msg), stmt='INTEGER %s' % kind)


    # ---- R10: the index of a CHOICE root alternative is the constrained whole number (0..n-1) of X.691 23.6 -- evaluated on the class the
    #      per / uper dispatch constructs for CHOICE, with the configuration its own __init__ computes for n alternatives
    ctx.rule('C05.R10', 'type level: CHOICE root index bits == X.691 23.6 / 11.5 (aligned and unaligned), encoder and decoder')
    for rel, aligned, codec_ in ((PER, True, 'per'), (UPER, False, 'uper')):
        cm = model.mod(rel)
        ccell = dispatch.table(model, codec_).cells.get('CHOICE')
        ccls = ccell.cls if ccell is not None else None
        wr = ccls.find_method('encode_root_index') if ccls is not None else None
        rd = ccls.find_method('decode_root_index') if ccls is not None else None
        init_ = ccls.find_method('__init__') if ccls is not None else None
        if not (wr and rd and init_):
            ctx.instance('C05.R10', '%s CHOICE root index' % codec_, 'undecided', 'the index writer / reader of the CHOICE class is not a method of its own', nontrivial=False,
                         node=ccls.node if ccls is not None else None, file=rel)
            continue
        Em = bitmachine.Machine(model, cm.classes.get('Encoder') or enc, 'enc', align_noop=not aligned)
        Dm = bitmachine.Machine(model, cm.classes.get('Decoder') or dec, 'dec', align_noop=not aligned)
        ip = flow.param_names(init_[1])
        pw, pr = flow.param_names(wr[1]), flow.param_names(rd[1])
        n_ok = n_und = 0
        und = None
        first_bad = None
        for n_alt in (2, 3, 4, 5, 16, 17, 128, 255, 256, 257, 300, 1000, 65535, 65536):
            try:
                _r, ienv = evalexpr.run_function(init_[1], {ip[1]: 'x', ip[2]: [None] * n_alt, ip[3]: None}, skip_calls=True, tolerant=True)
                cfg = {k: v_ for k, v_ in ienv.items() if isinstance(k, str) and k.startswith('self.') and v_ is not evalexpr.UNKNOWN}
            except (evalexpr.Unsupported, evalexpr.Raised, KeyError, TypeError, IndexError) as e:
                n_und += 1
                und = und or 'CHOICE of %d alternatives: %s' % (n_alt, e)
                continue
            for index in sorted({0, 1, n_alt // 2, n_alt - 1}):
                label = 'CHOICE of %d alternatives, alternative %d' % (n_alt, index)
                want = ref_integer('101', 0, n_alt - 1, False, index, aligned)
                try:
                    args = [index if p_ != pw[-1] else None for p_ in pw[1:]]
                    bits, _ = Em.run_fn(wr[1], pw[-1], args, cfg, '101')
                    msg = None
                    if bits != want:
                        msg = 'X.691 prescribes %s after the 3-bit prefix, the encoder emits %s' % (want[3:] or '(nothing)', bits[3:] or '(nothing)')
                    else:
                        got, pos = Dm.run_fn(rd[1], pr[-1], [None] * (len(pr) - 1), cfg, want + PAD, 3)
                        if got != index or pos != len(want):
                            msg = 'the decoder reads %r (ending at bit %d) from the %d-bit encoding' % (got, pos, len(want))
                except (evalexpr.Unsupported, bitmachine.Undecided, KeyError, TypeError) as e:
                    n_und += 1
                    und = und or '%s: %s' % (label, e)
                    continue
                except (bitmachine.Raised, evalexpr.Raised) as e:
                    msg = 'raises %s' % getattr(e, 'name', 'an error')
                if msg is None:
                    n_ok += 1
                elif first_bad is None:
                    first_bad = (label, msg)
        ctx.instance('C05.R10', '%s -> %s: %d (alternatives, index) cases evaluated, %d undecided' % (codec_, ccls.qname, n_ok, n_und),
                     'VIOLATION' if first_bad else ('ok' if n_ok else 'undecided'), und or '', nontrivial=n_ok > 0, node=wr[1], file=wr[0].mod.rel)
        if first_bad:
            ctx.violation('C05.R10', wr[0].mod.rel, wr[1], "%s dispatch['CHOICE'] -> %s.encode_root_index" % (codec_, ccls.qname), '%s: %s' % first_bad, stmt='CHOICE index %s' % codec_)

    # ---- R9 copy discipline: compiled user types are cached and shared by every reference; a member-level constraint configured on
    #      the shared object changes the encoding of unrelated components
    from .. import copyrule
    n9 = 0
    for f_, node_, var_, what_, owned_, why_ in copyrule.sites(model, ['asn1tools/codecs/compiler.py', PER, UPER]):
        n9 += 1
        ctx.instance('C05.R9', '%s %s' % (Model.qual(f_), what_), 'owned' if owned_ else 'VIOLATION', why_, node=node_, file=f_._mod.rel)
        if not owned_:
            ctx.violation('C05.R9', f_._mod.rel, node_, Model.qual(f_),
                          '%s configures an object that may be the cached instance shared by every reference to a named type (%s): the PER/UPER encoding of an unrelated component '
                          'with the same type changes' % (what_, why_), stmt=norm_stmt(Model.enclosing_stmt(node_)))
    if n9 < 4:
        raise AnalysisError('C05.R9 found only %d configuration sites' % n9)

    # ---- R11: known-multiplier strings with a permitted alphabet (X.691 30.5).  N characters need b bits (unaligned) or the next power of two (aligned); the characters keep
    #      their own values when the largest of them fits in that field, and are numbered 0..N-1 in canonical order otherwise (30.5.4).  The constructor of both variants is
    #      evaluated (sa/evalexpr.py) on a grid of alphabets; which table it selects and the width it computes are compared with the standard.
    ctx.rule('C05.R11', 'permitted alphabets: bits per character and the keep-values / renumber decision of X.691 30.5.4, aligned and unaligned (constructor evaluated on a grid of alphabets)')
    from .. import evalexpr as _ev
    alphabets = [('"0".."9"', list(range(48, 58))), ('"0".."5"', list(range(48, 54))), ('"a".."z"', list(range(97, 123))), ('"0".."z"', list(range(48, 123))),
                 ('" ".."~"', list(range(32, 127))), ('codes 0..63', list(range(64))), ('codes 0..127', list(range(128))), ('"a"', [97]), ('"a" | "b"', [97, 98]),
                 ('codes 0..1', [0, 1]), ('codes 0..15', list(range(16))), ('codes 1..16', list(range(1, 17))), ('300 BMP characters', list(range(0x4e00, 0x4e00 + 300))),
                 ('codes 0..299', list(range(300))), ('"A".."P"', list(range(65, 81)))]
    for rel, aligned in ((PER, True), (UPER, False)):
        kcls = model.mod(rel).classes.get('KnownMultiplierStringType')
        kinit = None
        for k_ in (kcls.mro() if kcls else []):
            ini_ = k_.methods.get('__init__')
            if ini_ is None:
                continue
            body_ = [s_ for s_ in ini_.body if not (isinstance(s_, ast.Expr) and isinstance(s_.value, ast.Constant))]
            only_super = len(body_) == 1 and isinstance(body_[0], ast.Expr) and isinstance(body_[0].value, ast.Call) and isinstance(body_[0].value.func, ast.Attribute) \
                and isinstance(body_[0].value.func.value, ast.Call) and ast.unparse(body_[0].value.func.value.func) == 'super' and body_[0].value.func.attr == '__init__' \
                and [ast.unparse(a_) for a_ in body_[0].value.args] == [p_ for p_ in flow.param_names(ini_) if p_ != 'self']
            if only_super:
                continue          # a constructor that only hands its arguments on: the base class's constructor does the work (with the steps this class overrides)
            kinit = ini_
            break
        if kinit is None:
            raise AnalysisError('%s: KnownMultiplierStringType.__init__ vanished' % rel)
        kp = [p_ for p_ in flow.param_names(kinit) if p_ != 'self']
        if len(kp) < 5:
            raise AnalysisError('%s: KnownMultiplierStringType.__init__ has an unexpected signature %s' % (rel, kp))
        n_ok = n_und = 0
        bad = None
        und = ''
        CLASS = _ev.Obj(encode_map={'class alphabet': 0}, decode_map={0: 'class alphabet'})
        for label, codes in alphabets:
            n_ = len(codes)
            b_ = (n_ - 1).bit_length()
            if aligned:
                bits = 0
                for cand in (0, 1, 2, 4, 8, 16, 32):
                    if cand >= b_:
                        bits = cand
                        break
            else:
                bits = b_
            keep = max(codes) <= 2 ** bits - 1
            given = _ev.Obj(encode_map={c_: i_ for i_, c_ in enumerate(sorted(codes))}, decode_map={i_: c_ for i_, c_ in enumerate(sorted(codes))})
            env0 = {kp[0]: 'a', kp[1]: 1, kp[2]: 5, kp[3]: False, kp[4]: given, 'len(%s)' % kp[4]: n_, 'self.PERMITTED_ALPHABET': CLASS, 'len(self.PERMITTED_ALPHABET)': 10 ** 9,
                    '__cls__': kcls}
            try:
                _r, env_ = _ev.run_function(kinit, env0, skip_super=True)
            except (_ev.Unsupported, _ev.Raised) as e_:
                n_und += 1
                und = und or str(e_)[:90]
                continue
            got_bits = env_.get('self.bits_per_character')
            got_keep = env_.get('self.permitted_alphabet') is CLASS
            if got_bits == bits and got_keep == keep:
                n_ok += 1
            elif bad is None:
                bad = (label, n_, max(codes), got_bits, got_keep, bits, keep)
        ctx.instance('C05.R11', '%s::KnownMultiplierStringType.__init__ on %d alphabets (%d undecided)' % (rel, n_ok + (1 if bad else 0), n_und),
                     'VIOLATION' if bad else ('ok' if n_ok > n_und else 'undecided'), und, nontrivial=n_ok > n_und, node=kinit, file=rel)
        if bad:
            label, n_, ub, got_bits, got_keep, bits, keep = bad
            ctx.violation('C05.R11', rel, kinit, Model.qual(kinit),
                          'FROM (%s): %d characters, largest value %d -- the type uses %s bits per character and %s; X.691 30.5 prescribes %d bits and %s (the largest value %s 2**%d - 1)'
                          % (label, n_, ub, got_bits, 'the characters\' own values' if got_keep else 'values renumbered from 0', bits,
                             'the characters\' own values' if keep else 'values renumbered from 0', 'fits in' if keep else 'exceeds', bits), stmt='permitted alphabet decision')


    # ---- C05.R12: the presence bit of an OPTIONAL / DEFAULT component says whether the component is in the value -- `name in data` --, not whether its value is truthy or not None:
    #      NULL is None, FALSE and 0 and the empty string are values (X.691 19.2)
    ctx.rule('C05.R12', 'presence bits are decided by membership of the member name in the value, never by the member\'s value')
    from .. import siblings as _sib
    encs_ = _sib.members_encoders(model, ('per', 'uper'))
    if len(encs_) < 2:
        raise AnalysisError('C05.R12 found only %d members encoders' % len(encs_))
    for f_ in encs_:
        bad_ = _sib.presence_violations(f_)
        ctx.instance('C05.R12', Model.qual(f_), '`name in data`' if not bad_ else 'VIOLATION', node=f_, file=f_._mod.rel)
        for node_, why_ in bad_:
            ctx.violation('C05.R12', f_._mod.rel, node_, Model.qual(f_), why_ + ': a present NULL (value None) or a falsy value gets presence bit 0 and is left out of the encoding, which is '
                          'not the encoding X.691 19.2 prescribes for the value and does not decode back to it', stmt='presence by value')

    # ---- C05.R13: the compilers re-configure the copy of a referenced type when the reference carries its own constraint (`a Octets (SIZE (2))` calls set_size_range again).
    #      What a constructor derives from a parameter that it also hands to such a setter must be derived *in* the setter, or it describes the first constraint for ever.
    ctx.rule('C05.R13', 'no attribute is derived in __init__ alone from a parameter that a set_* method of the object re-configures later')
    from .. import siblings as _sib2
    n_ctor, stale = _sib2.stale_derived_attributes(model, (PER, UPER))
    ctx.instance('C05.R13', '%d constructors hand parameters to a set_* method; attributes derived from those parameters outside the setter: %d' % (n_ctor, len(stale)),
                 'ok' if not stale else 'VIOLATION', nontrivial=n_ctor > 0)
    for c_, ini_, a_, attr_, used_, setter_ in stale:
        ctx.violation('C05.R13', c_.mod.rel, a_, Model.qual(ini_),
                      '`%s` is computed from %s in the constructor only, while %s() - which the compiler calls again when a reference to the type carries its own constraint - sets the '
                      'same parameter(s) anew: after that call self.%s still describes the first constraint and the encoding follows it (alignment, width, form), not the effective one'
                      % (norm_stmt(a_), ', '.join(used_), setter_, attr_), stmt='derived attribute not refreshed by %s' % setter_)
    if n_ctor < 3:
        raise AnalysisError('C05.R13 found only %d constructors that call a setter' % n_ctor)

MUTANTS = [
    dict(name='decoder: range <= 255 becomes < 255', file=PER, quick=True,
         old="""        _range = (maximum - minimum + 1)

        if _range <= 255:
            value = self.read_non_negative_binary_integer(number_of_bits)""",
         new="""        _range = (maximum - minimum + 1)

        if _range < 255:
            value = self.read_non_negative_binary_integer(number_of_bits)""", expect='C05.R1'),
    dict(name='fragment marker 0xc3 -> 49153', file=PER, quick=True, old="                    0xc3: 49152,", new="                    0xc3: 49153,", expect='C05.R1'),
    dict(name='uper SET no longer sorted', file=UPER, quick=True,
         old="""                                      module_name,
                                      sort_by_tag=True))""", new="""                                      module_name))""", expect='C05.R3'),
    dict(name='uper.ArrayType.encode writes an aligned length', file=UPER,
         old="""        elif self.minimum != self.maximum:
            encoder.append_non_negative_binary_integer(len(data) - self.minimum,
                                                       self.number_of_bits)

        for entry in data:
            self.element_type.encode(entry, encoder)""",
         new="""        elif self.minimum != self.maximum:
            encoder.append_length_determinant(len(data) - self.minimum)

        for entry in data:
            self.element_type.encode(entry, encoder)""", expect=['C05.R2', 'C05.R6']),
    dict(name='IA5String loses permitted_alphabet', file=PER,
         old="""            compiled = IA5String(name,
                                 *self.get_size_range(type_descriptor,
                                                      module_name),
                                 permitted_alphabet=permitted_alphabet)""",
         new="""            compiled = IA5String(name,
                                 *self.get_size_range(type_descriptor,
                                                      module_name))""", expect='C05.R4'),
    dict(name='enumeration root not sorted', file=PER, old="        root = sorted(root, key=itemgetter(1))\n", new="", expect='C05.R5'),
    dict(name='normally small length off by one', file=PER, old="            return self.read_non_negative_binary_integer(6) + 1", new="            return self.read_non_negative_binary_integer(6)", expect='C05.R1'),
    dict(name='encoder aligns before small ranges', file=PER,
         old="""        if _range <= 255:
            self.append_non_negative_binary_integer(value, number_of_bits)
        elif _range == 256:""", new="""        if _range <= 255:
            self.align_always()
            self.append_non_negative_binary_integer(value, number_of_bits)
        elif _range == 256:""", expect='C05.R1'),
]
REFACTORS = []

MUTANTS.append(dict(name='aligned PER compares the size of the unconstrained alphabet with the field', file=PER,
                    old="        if self.is_largest_character_in_field(permitted_alphabet):\n            self.permitted_alphabet = self.PERMITTED_ALPHABET\n\n    def is_largest",
                    new="        if len(self.PERMITTED_ALPHABET) < 2 ** self.bits_per_character:\n            self.permitted_alphabet = self.PERMITTED_ALPHABET\n\n    def is_largest", expect='C05.R11'))
MUTANTS.append(dict(name='unaligned PER always renumbers a permitted alphabet', file=UPER,
                    old="        if self.is_largest_character_in_field(permitted_alphabet):\n            self.permitted_alphabet = self.PERMITTED_ALPHABET\n", new="", expect='C05.R11'))
MUTANTS.append(dict(name='uper.Choice index override removed (aligned index in UPER for >= 256 alternatives)', file=UPER,
                    old="""class Choice(per.Choice):

    def encode_root_index(self, index, encoder):
        encoder.append_non_negative_binary_integer(index, self.root_number_of_bits)

    def decode_root_index(self, decoder):
        return decoder.read_non_negative_binary_integer(self.root_number_of_bits)
""", new="""class Choice(per.Choice):
    pass
""", expect='C05.R10'))

MUTANTS.append(dict(name='append_bits assumes exactly ceil(n / 8) octets of data', file=PER,
                    old="""        value = int(binascii.hexlify(data), 16)
        value >>= (8 * len(data) - number_of_bits)
""", new="""        value = (int.from_bytes(data, 'big') >> (-number_of_bits % 8))
""", expect='C05.R1'))
