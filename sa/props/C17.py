"""C17 -- the compile cache is transparent (key clause only; see DESIGN.md section 4 C17)."""
import ast

from ..model import AnalysisError, Model, walk_no_nested, norm_stmt, names_in
from .. import flow, sem

EXPLANATION = (
    'Decides the cache-key clause of C17 from the source of asn1tools/compiler.py: in the function that consults '
    'diskcache, every parameter that reaches the producer call on the miss path must also reach the key (R1); the key '
    'must join its variable-length parts unambiguously (R2); cache_dir=None must bypass diskcache (R3); the producer '
    'call on the miss path must be the same call as the uncached path (R4); the key used for lookup is the key used for '
    'the store and the stored object is the returned one (R5); the file contents reach the key losslessly (R6); compiled state is kept in instances, never in class-level containers, which the pickled cache entry does not carry (R7).  Crash points and damaged cache files are properties of '
    'diskcache/sqlite/pickle (outside /repo) and are not decided.')
ASSUMPTIONS = ['diskcache.Cache is transactional and returns what was stored (outside /repo)',
               'intraprocedural flow-insensitive dependency closure over-approximates what reaches the key']

F = 'asn1tools/compiler.py'


def find_cache_function(ctx):
    m = ctx.model.mod(F)
    out = []
    for f in m.functions.values():
        for c in walk_no_nested(f):
            if isinstance(c, ast.Call) and ast.unparse(c.func) in ('diskcache.Cache', 'Cache'):
                out.append((f, c))
    if len(out) != 1:
        raise AnalysisError('expected exactly one function constructing diskcache.Cache in %s, found %d' % (F, len(out)))
    # helpers a refactoring may have extracted (key construction, the uncached producer) are expanded in place
    f = flow.inline_helpers(out[0][0])
    if f is out[0][0]:
        return out[0]
    for c in walk_no_nested(f):
        if isinstance(c, ast.Call) and ast.unparse(c.func) in ('diskcache.Cache', 'Cache'):
            return f, c
    raise AnalysisError('diskcache.Cache call lost while expanding helpers')


def check(ctx):
    model = ctx.model
    m = model.mod(F)
    f, cache_call = find_cache_function(ctx)
    fq = Model.qual(f)
    ctx.rule('C17.R1', 'every parameter that flows into the producer call on the miss path flows into the cache key')
    ctx.rule('C17.R2', 'variable-length key parts are joined with a separator or length prefix')
    ctx.rule('C17.R3', 'cache_dir is None reaches compile_dict without touching diskcache')
    ctx.rule('C17.R4', 'producer call on the miss path == the uncached producer call (same callee, same argument trees)')
    ctx.rule('C17.R5', 'lookup key == store key; stored object == returned object')

    # cache variable
    cache_var = None
    st = Model.enclosing_stmt(cache_call)
    if isinstance(st, ast.Assign) and isinstance(st.targets[0], ast.Name):
        cache_var = st.targets[0].id
    elif isinstance(st, ast.With):
        for it in st.items:
            if it.context_expr is cache_call and isinstance(it.optional_vars, ast.Name):
                cache_var = it.optional_vars.id
    if cache_var is None:
        raise AnalysisError('cannot find the variable holding the diskcache.Cache in %s' % fq)
    cache_dir_params = names_in(cache_call) & set(flow.param_names(f))

    d, ed = flow.deps(f)
    lookups, stores = [], []
    for n in walk_no_nested(f):
        if isinstance(n, ast.Subscript) and isinstance(n.value, ast.Name) and n.value.id == cache_var:
            (stores if isinstance(n.ctx, ast.Store) else lookups).append(n)
        if isinstance(n, ast.Call) and isinstance(n.func, ast.Attribute) and isinstance(n.func.value, ast.Name) \
                and n.func.value.id == cache_var and n.func.attr in ('get', 'set', 'add'):
            if n.func.attr == 'get':
                lookups.append(n)
            else:
                stores.append(n)
    if not lookups or not stores:
        raise AnalysisError('cache lookup/store not found in %s' % fq)

    def key_expr(n):
        return n.slice if isinstance(n, ast.Subscript) else n.args[0]

    key_deps = set()
    for n in lookups:
        key_deps |= ed(key_expr(n))

    # producer: the call whose result is stored
    producers = []
    for s in stores:
        stmt = Model.enclosing_stmt(s)
        val = stmt.value if isinstance(stmt, ast.Assign) else (s.args[1] if isinstance(s, ast.Call) and len(s.args) > 1 else None)
        if val is None:
            raise AnalysisError('cannot find stored value in %s' % fq)
        if isinstance(val, ast.Name):
            # find its definition(s)
            for a in walk_no_nested(f):
                if isinstance(a, ast.Assign) and any(isinstance(t, ast.Name) and t.id == val.id for t in a.targets):
                    producers.append((a.value, s, val.id))
        else:
            producers.append((val, s, None))
    if not producers:
        raise AnalysisError('producer of the cached value not found in %s' % fq)
    for pexpr, store, var in producers:
        pdeps = ed(pexpr) - cache_dir_params
        for p in sorted(pdeps):
            ok = p in key_deps
            ctx.instance('C17.R1', '%s param %s' % (fq, p), 'ok' if ok else 'VIOLATION', node=pexpr, file=F)
            if not ok:
                ctx.violation('C17.R1', F, f, '%s::param %s' % (fq, p),
                              'parameter %r influences the compiled result (%s) but does not flow into the cache key; '
                              'a later call with a different %s gets the object cached for the earlier one'
                              % (p, norm_stmt(Model.enclosing_stmt(pexpr)), p), stmt='key lacks ' + p)

    # R2: how are the parts joined
    n_join = 0
    for n in walk_no_nested(f):
        if isinstance(n, ast.Call) and isinstance(n.func, ast.Attribute) and n.func.attr == 'join' \
                and isinstance(n.func.value, ast.Constant):
            n_join += 1
            sep = n.func.value.value
            arg = n.args[0] if n.args else None
            ok = bool(sep)
            if not ok and isinstance(arg, (ast.ListComp, ast.GeneratorExp)):
                # every part carries its own length:  len(<loop variable>) occurs in the element expression
                lv = {x for g in arg.generators for x in flow.target_names(g.target)}
                ok = any(isinstance(c, ast.Call) and isinstance(c.func, ast.Name) and c.func.id == 'len' and c.args
                         and isinstance(c.args[0], ast.Name) and c.args[0].id in lv for c in ast.walk(arg.elt))
            if not ok and isinstance(arg, ast.Name):
                # a list of fixed-size digests is unambiguous too
                apps = [c for c in walk_no_nested(f) if isinstance(c, ast.Call) and isinstance(c.func, ast.Attribute) and c.func.attr == 'append'
                        and isinstance(c.func.value, ast.Name) and c.func.value.id == arg.id and c.args]
                ok = bool(apps) and all(isinstance(c.args[0], ast.Call) and isinstance(c.args[0].func, ast.Attribute)
                                        and c.args[0].func.attr in ('digest', 'hexdigest') for c in apps)
            ctx.instance('C17.R2', '%s %s' % (fq, norm_stmt(Model.enclosing_stmt(n))), 'ok' if ok else 'VIOLATION', node=n, file=F)
            if not ok:
                ctx.violation('C17.R2', F, n, fq,
                              'key parts of variable length are concatenated with an empty separator and no length prefix: '
                              'file lists ["ab","c"] and ["a","bc"] (or a codec name running into the first file) share one key '
                              'although parse_files joins files differently', stmt='key join without separator')
    if n_join == 0:
        # a key built another way (tuple, hash of parts): tuples/hashes of separately hashed parts are unambiguous
        ctx.instance('C17.R2', '%s (no join: structured key)' % fq, 'ok', nontrivial=False)

    # R6: the file contents reach the key unmodified (or through a collision-resistant digest)
    ctx.rule('C17.R6', 'file contents flow into the key losslessly: read() appended as is, or through hashlib digests / length prefixes only')
    INJECTIVE_CALLS = ('read', 'bytes', 'bytearray', 'digest', 'hexdigest', 'sha256', 'sha1', 'sha512', 'md5', 'blake2b', 'encode', 'len', 'pack', 'repr', 'str')
    n6 = 0
    # a module function that reads a file and returns the contents is a read at its call sites; its own body is examined too
    readers = {g_.name: g_ for g_ in m.functions.values() if g_ is not f and g_.name != f.name
               and any(isinstance(c_, ast.Call) and isinstance(c_.func, ast.Attribute) and c_.func.attr == 'read' for c_ in walk_no_nested(g_))
               and any(isinstance(c_, ast.Call) and isinstance(c_.func, ast.Name) and c_.func.id == g_.name for c_ in walk_no_nested(f))}
    sites6 = [(f, n) for n in walk_no_nested(f) if isinstance(n, ast.Call) and ((isinstance(n.func, ast.Attribute) and n.func.attr == 'read')
                                                                                  or (isinstance(n.func, ast.Name) and n.func.id in readers))]
    for g_ in readers.values():
        sites6 += [(g_, n) for n in walk_no_nested(g_) if isinstance(n, ast.Call) and isinstance(n.func, ast.Attribute) and n.func.attr == 'read']
    for f6, n in sites6:
        if True:
            # climb to the enclosing statement: every call between read() and the statement must be injective
            n6 += 1
            p = getattr(n, '_parent', None)
            bad = None
            while p is not None and not isinstance(p, ast.stmt):
                if isinstance(p, ast.Call):
                    nm = p.func.attr if isinstance(p.func, ast.Attribute) else (p.func.id if isinstance(p.func, ast.Name) else '?')
                    if nm not in INJECTIVE_CALLS and nm not in flow.MUTATORS:
                        bad = p
                if isinstance(p, ast.Subscript):
                    bad = p
                p = getattr(p, '_parent', None)
            # a local holding the contents that is transformed later
            if bad is None and isinstance(p, ast.Assign) and isinstance(p.targets[0], ast.Name):
                var = p.targets[0].id
                for c in walk_no_nested(f6):
                    if isinstance(c, ast.Call) and isinstance(c.func, ast.Attribute) and isinstance(c.func.value, ast.Name) and c.func.value.id == var \
                            and c.func.attr not in INJECTIVE_CALLS:
                        bad = c
            ctx.instance('C17.R6', '%s %s' % (fq, norm_stmt(Model.enclosing_stmt(n))), 'lossless' if bad is None else 'VIOLATION', node=n, file=F)
            if bad is not None:
                ctx.violation('C17.R6', F, bad, fq,
                              'the file contents pass through %s before reaching the cache key: two different files (different comments, string '
                              'literals, line structure) can share a key and the second compile returns the first file\'s specification'
                              % ast.unparse(bad)[:80], stmt='lossy key transform')
    if n6 == 0:
        raise AnalysisError('C17.R6: no file read found in %s' % fq)

    # R3 + R4: the public entry
    entry = None
    for g in m.functions.values():
        for c in walk_no_nested(g):
            if isinstance(c, ast.Call) and isinstance(c.func, ast.Name) and c.func.id == f.name:
                entry = (g, c)
    if entry is None:
        raise AnalysisError('no caller of %s found' % f.name)
    g, ccall = entry
    g2 = flow.inline_helpers(g, exclude=(f.name,))
    if g2 is not g:
        cc2 = [c for c in walk_no_nested(g2) if isinstance(c, ast.Call) and isinstance(c.func, ast.Name) and c.func.id == f.name]
        if len(cc2) == 1:
            g, ccall = g2, cc2[0]
    gq = Model.qual(g)
    bypass = None
    none_in_body = True
    for n in walk_no_nested(g):
        if isinstance(n, ast.If):
            fm = sem.cond_formula(n.test)        # canonical literal and polarity: `not cache_dir is None`, `cache_dir is not None`, `not cache_dir` ...
            if fm[0] == 'lit' and fm[1] in ('cache_dir is None', 'cache_dir'):
                bypass = n
                none_in_body = fm[2] if fm[1] == 'cache_dir is None' else not fm[2]
    if bypass is None:
        raise AnalysisError('cache bypass test not found in %s' % gq)
    none_arm = bypass.body if none_in_body else bypass.orelse
    txt = ' '.join(ast.unparse(s) for s in none_arm)
    uncached_calls = [c for s in none_arm for c in ast.walk(s) if isinstance(c, ast.Call) and isinstance(c.func, ast.Name) and c.func.id == 'compile_dict']
    ok = ('diskcache' not in txt and f.name not in txt and len(uncached_calls) == 1 and flow.terminates(none_arm))
    ctx.instance('C17.R3', '%s if %s' % (gq, ast.unparse(bypass.test)), 'ok' if ok else 'VIOLATION', node=bypass, file=F)
    if not ok:
        ctx.violation('C17.R3', F, bypass, gq, 'the cache_dir=None arm does not go straight to compile_dict (or touches the cache)')
    # R4 compare producer call trees modulo the parameter mapping of ccall
    if uncached_calls:
        unc = uncached_calls[0]
        gparams = flow.param_names(g)
        fparams = flow.param_names(f)
        mapping = {}
        for i, a in enumerate(ccall.args):
            if isinstance(a, ast.Name) and i < len(fparams):
                mapping[fparams[i]] = a.id
        for k in ccall.keywords:
            if isinstance(k.value, ast.Name):
                mapping[k.arg] = k.value.id
        for pexpr, store, var in producers:

            class Ren(ast.NodeTransformer):
                def visit_Name(self, n):
                    return ast.copy_location(ast.Name(id=mapping.get(n.id, n.id), ctx=n.ctx), n)
            pe = Ren().visit(ast.parse(ast.unparse(pexpr), mode='eval').body)
            unc = ast.parse(ast.unparse(unc), mode='eval').body
            same = ast.dump(pe) == ast.dump(unc)
            ctx.instance('C17.R4', '%s producer vs %s uncached' % (fq, gq), 'ok' if same else 'VIOLATION', node=pexpr, file=F)
            if not same:
                ctx.violation('C17.R4', F, pexpr, fq,
                              'the call that produces the cached object (%s) differs from the uncached call (%s): a cached compile '
                              'is not an uncached compile of the same files/options' % (ast.unparse(pe), ast.unparse(unc)),
                              stmt='producer differs from uncached call')
    # R5
    lk = {ast.unparse(key_expr(n)) for n in lookups}
    sk = {ast.unparse(key_expr(n)) for n in stores}
    ok = lk == sk and all(isinstance(key_expr(n), ast.Name) for n in lookups + stores)
    if ok:
        # key variable not re-bound between lookup and store
        kv = key_expr(lookups[0]).id
        first = min(n.lineno for n in lookups + stores)
        for a in walk_no_nested(f):
            if isinstance(a, (ast.Assign, ast.AugAssign)) and a.lineno > first and kv in flow.target_names(a.targets[0] if isinstance(a, ast.Assign) else a.target):
                ok = False
    ctx.instance('C17.R5', '%s lookup %s store %s' % (fq, sorted(lk), sorted(sk)), 'ok' if ok else 'VIOLATION', node=lookups[0], file=F)
    if not ok:
        ctx.violation('C17.R5', F, stores[0], fq, 'the key used to store differs from the key used to look up')
    for pexpr, store, var in producers:
        if var is not None:
            rets = [r for r in walk_no_nested(f) if isinstance(r, ast.Return) and r.lineno > store.lineno]
            ok = bool(rets) and all(isinstance(r.value, ast.Name) and r.value.id == var for r in rets)
            ctx.instance('C17.R5', '%s stored %s is returned' % (fq, var), 'ok' if ok else 'VIOLATION', node=store, file=F)
            if not ok:
                ctx.violation('C17.R5', F, store, fq, 'the object returned on a miss is not the object stored', stmt='miss returns other object')
    # ---- R7: what the cache stores is the pickled object graph of the Specification: instance attributes only.  State that compile-time
    #      code keeps in a class-level (or module-level) container is not part of it, so a cache hit in a new process lacks it.
    ctx.rule('C17.R7', 'compiled state lives in instances: no method writes into a class-level mutable container (lost by the pickled cache entry)')
    n7 = 0
    MUT = ('append', 'extend', 'insert', 'update', 'setdefault', 'add', 'pop', 'remove', 'clear', '__setitem__')
    for m_ in model.modules.values():
        if not (m_.rel.startswith('asn1tools/codecs/') or m_.rel == F):
            continue
        for c_ in m_.classes.values():
            # class-level attributes with a mutable initial value that no method re-binds on the instance
            cands = {}
            for k_ in c_.mro():
                for an, av in k_.attrs.items():
                    if isinstance(av, (ast.Dict, ast.List, ast.Set)) or (isinstance(av, ast.Call) and isinstance(av.func, ast.Name) and av.func.id in ('dict', 'list', 'set', 'defaultdict', 'OrderedDict')):
                        cands.setdefault(an, k_)
            if not cands:
                continue
            rebound = set()
            for k_ in c_.mro():
                for g_ in k_.methods.values():
                    for n_ in walk_no_nested(g_):
                        if isinstance(n_, ast.Assign):
                            for t_ in n_.targets:
                                if isinstance(t_, ast.Attribute) and isinstance(t_.value, ast.Name) and t_.value.id == 'self':
                                    rebound.add(t_.attr)
            for g_ in c_.methods.values():
                for n_ in walk_no_nested(g_):
                    tgt = None
                    if isinstance(n_, (ast.Assign, ast.AugAssign, ast.Delete)):
                        for t_ in (n_.targets if not isinstance(n_, ast.AugAssign) else [n_.target]):
                            if isinstance(t_, ast.Subscript):
                                tgt = t_.value
                    elif isinstance(n_, ast.Call) and isinstance(n_.func, ast.Attribute) and n_.func.attr in MUT:
                        tgt = n_.func.value
                    if not isinstance(tgt, ast.Attribute) or tgt.attr not in cands or tgt.attr in rebound:
                        continue
                    base_ = tgt.value
                    through = (isinstance(base_, ast.Name) and base_.id in ('self', 'cls', c_.name)) or \
                        (isinstance(base_, ast.Attribute) and base_.attr == '__class__') or (isinstance(base_, ast.Call) and isinstance(base_.func, ast.Name) and base_.func.id == 'type')
                    if not through:
                        continue
                    n7 += 1
                    ctx.instance('C17.R7', '%s writes class-level %s.%s' % (Model.qual(g_), cands[tgt.attr].name, tgt.attr), 'VIOLATION', node=n_, file=m_.rel)
                    ctx.violation('C17.R7', m_.rel, n_, Model.qual(g_),
                                  'the method stores into %s.%s, a container defined in the class body and shared by all instances: it is not part of the object graph that '
                                  'compile_files(cache_dir=...) pickles, so a specification returned from the cache in another process lacks this state and behaves differently '
                                  'from a fresh compile' % (cands[tgt.attr].name, tgt.attr), stmt=norm_stmt(Model.enclosing_stmt(n_)))
    ctx.instance('C17.R7', 'classes of asn1tools/codecs and compiler.py: %d writes into class-level containers' % n7, 'ok' if n7 == 0 else 'VIOLATION', nontrivial=True)
    # ---- R8: a hit returns what pickle rebuilds.  A class that customises pickling so that state is dropped and recomputed when loading gives the
    #      cached specification a second construction path next to __init__; the two must be the same code, otherwise hit and miss differ.
    ctx.rule('C17.R8', 'no class of the compiled object graph customises pickling so that a cache hit rebuilds state by other code than __init__')
    HOOKS = ('__getstate__', '__setstate__', '__reduce__', '__reduce_ex__', '__getnewargs__', '__getnewargs_ex__')
    n8 = 0
    ncls = 0

    def identity_getstate(g_):
        rets = [r_ for r_ in walk_no_nested(g_) if isinstance(r_, ast.Return)]
        v_ = sem.View(g_)
        drops = any(isinstance(n_, ast.Delete) for n_ in walk_no_nested(g_)) or \
            any(isinstance(n_, ast.Call) and isinstance(n_.func, ast.Attribute) and n_.func.attr in ('pop', 'popitem', 'clear', '__delitem__') for n_ in walk_no_nested(g_))
        return bool(rets) and not drops and all(r_.value is not None and v_.text(r_.value) in ('self.__dict__', 'self.__dict__.copy()', 'dict(self.__dict__)', 'vars(self)', 'dict(vars(self))') for r_ in rets)

    def identity_setstate(g_):
        body = [s_ for s_ in g_.body if not (isinstance(s_, ast.Expr) and isinstance(s_.value, ast.Constant))]
        st = flow.param_names(g_)[1] if len(flow.param_names(g_)) > 1 else None
        for s_ in body:
            t_ = ast.unparse(s_)
            if t_ not in ('self.__dict__.update(%s)' % st, 'self.__dict__ = %s' % st, 'self.__dict__ = dict(%s)' % st, 'vars(self).update(%s)' % st):
                return False
        return bool(body)

    for m_ in model.modules.values():
        if not (m_.rel.startswith('asn1tools/codecs/') or m_.rel in (F, 'asn1tools/errors.py')):
            continue
        for c_ in m_.classes.values():
            ncls += 1
            hooks = {h: c_.methods[h] for h in HOOKS if h in c_.methods}
            if not hooks:
                continue
            n8 += 1
            init_r = c_.find_method('__init__')
            init_assigns = {}
            if init_r:
                for n_ in walk_no_nested(init_r[1]):
                    if isinstance(n_, ast.Assign) and len(n_.targets) == 1 and isinstance(n_.targets[0], ast.Attribute) and isinstance(n_.targets[0].value, ast.Name) \
                            and n_.targets[0].value.id == 'self':
                        init_assigns.setdefault(n_.targets[0].attr, []).append(ast.unparse(n_.value))
            bad = None
            for h, g_ in sorted(hooks.items()):
                if h == '__getstate__' and identity_getstate(g_):
                    continue
                if h == '__setstate__':
                    if identity_setstate(g_):
                        continue
                    # recomputation is acceptable only through the very call __init__ makes for that attribute:  self.x = self.build_x(...)
                    same = True
                    st = flow.param_names(g_)[1] if len(flow.param_names(g_)) > 1 else None
                    for s_ in g_.body:
                        if isinstance(s_, ast.Expr) and isinstance(s_.value, ast.Constant):
                            continue
                        if ast.unparse(s_) in ('self.__dict__.update(%s)' % st, 'self.__dict__ = %s' % st):
                            continue
                        if isinstance(s_, ast.Assign) and len(s_.targets) == 1 and isinstance(s_.targets[0], ast.Attribute) and isinstance(s_.value, ast.Call) \
                                and ast.unparse(s_.value) in init_assigns.get(s_.targets[0].attr, []) and isinstance(s_.value.func, ast.Attribute) \
                                and isinstance(s_.value.func.value, ast.Name) and s_.value.func.value.id == 'self':
                            continue
                        same = False
                    if same:
                        continue
                    bad = (g_, '__setstate__ rebuilds part of the object with its own code (not the call __init__ makes)')
                    break
                if h == '__getstate__':
                    # state is dropped: fine only if __setstate__ restores it through the same call as __init__ (decided at __setstate__)
                    if '__setstate__' in hooks:
                        continue
                    bad = (g_, '__getstate__ drops or transforms state and there is no __setstate__ that restores it')
                    break
                bad = (g_, '%s customises how the object is pickled' % h)
                break
            ctx.instance('C17.R8', '%s pickling hooks %s' % (c_.qname, sorted(hooks)), 'identity / shared construction code' if bad is None else 'VIOLATION', node=list(hooks.values())[0], file=m_.rel)
            if bad is not None:
                ctx.violation('C17.R8', m_.rel, bad[0], Model.qual(bad[0]),
                              '%s: the compile cache stores the pickled Specification, so a cache hit returns an object built by this code while a miss (and an uncached compile) '
                              'returns the one built by __init__ -- two implementations that must agree for every specification (duplicate type names, ordering, ...)' % bad[1],
                              stmt='custom pickling of %s' % c_.name)
    ctx.instance('C17.R8', '%d classes of the compiled object graph, %d with pickling hooks' % (ncls, n8), 'ok', nontrivial=False)
    if ncls < 100:
        raise AnalysisError('C17.R8 saw only %d classes' % ncls)
    # ---- R9: the key sees the files as the producer sees them: same sequence, same order, same multiplicity.  parse_files() merges the modules in the order given and
    #      the compiler processes them in that order, so the order of the file list is part of what is compiled.
    ctx.rule('C17.R9', 'the key iterates over the very sequence that is handed to the producer (not a sorted / de-duplicated / sliced view of it)')
    n9 = 0
    prod_names = set()
    for pexpr, _s, _v in producers:
        prod_names |= {n_.id for n_ in ast.walk(pexpr) if isinstance(n_, ast.Name)} & set(flow.param_names(f))
    iters = [(n_, n_.iter) for n_ in walk_no_nested(f) if isinstance(n_, ast.For)] + \
            [(n_, g_.iter) for n_ in walk_no_nested(f) if isinstance(n_, (ast.ListComp, ast.GeneratorExp, ast.SetComp)) for g_ in n_.generators]
    for node_, it_ in iters:
        inner = it_
        while isinstance(inner, ast.Call) and isinstance(inner.func, ast.Name) and inner.func.id in ('list', 'tuple', 'iter', 'enumerate') and len(inner.args) == 1:
            inner = inner.args[0]
        used = {n_.id for n_ in ast.walk(it_) if isinstance(n_, ast.Name)} & prod_names
        if not used:
            continue
        n9 += 1
        ok = isinstance(inner, ast.Name) and inner.id in prod_names
        ctx.instance('C17.R9', '%s iterates over %s' % (fq, ast.unparse(it_)[:60]), 'the producer\'s sequence' if ok else 'VIOLATION', node=node_, file=F)
        if not ok:
            ctx.violation('C17.R9', F, node_, fq,
                          'the key is built from `%s`, the compiled object from `%s` as given: file lists that differ in what that view discards (order, duplicates, a part) share '
                          'one key although parse_files() and the compiler process the modules in the order given, so the second call gets the specification compiled for the first'
                          % (ast.unparse(it_)[:80], sorted(used)[0]), stmt='key iterates over a view of the file list')
    if n9 == 0:
        ctx.instance('C17.R9', '%s: no iteration over the file list found' % fq, 'undecided', nontrivial=False)
    ctx.floor('C17.R1', 2)
    ctx.floor('C17.R3', 1)
    ctx.floor('C17.R4', 1)
    ctx.floor('C17.R5', 2)


MUTANTS = [
    dict(name='key drops the codec', file=F, old="        repr((codec,\n", new="        repr((\n", expect='C17.R1'),
    dict(name='key drops numeric_enums', file=F, old="              encoding,\n              numeric_enums)).encode('utf-8')", new="              encoding)).encode('utf-8')", expect='C17.R1'),
    dict(name='key parts joined without length prefix', file=F,
         old="""    key = b''.join([str(len(part)).encode('ascii') + b':' + part
                    for part in key])""", new="""    key = b''.join(key)""", expect='C17.R2'),
    dict(name='cached path forces numeric_enums=False', file=F,
         old="""                                codec,
                                any_defined_by_choices,
                                numeric_enums)
        cache[key] = compiled""",
         new="""                                codec,
                                any_defined_by_choices,
                                False)
        cache[key] = compiled""", expect='C17.R4'),
    dict(name='bypass arm goes through the cache', file=F,
         old="""    if cache_dir is None:
        return compile_dict(parse_files(filenames, encoding),""",
         new="""    if cache_dir is None and not has_diskcache:
        return compile_dict(parse_files(filenames, encoding),""", expect=None),
    dict(name='store under a different key', file=F, old="cache[key] = compiled", new="cache[key[:64]] = compiled", expect='C17.R5'),
]
MUTANTS.append(dict(name='key from whitespace-normalised contents', file=F,
                    old="key.append(fin.read())", new="key.append(b' '.join(fin.read().split()))", expect='C17.R6'))
REFACTORS = [
    dict(name='rename local compiled', file=F,
         old="""        cache[key] = compiled

        return compiled""",
         new="""        cache[key] = compiled
        result = compiled

        return compiled""", ),
]

MUTANTS.append(dict(name='compiled struct objects memoised in a class-level table', file='asn1tools/codecs/oer.py',
                    old="""class Integer(Type):

    def __init__(self, name):""", new="""class Integer(Type):

    STRUCTS = {}

    def remember(self, fmt):
        self.STRUCTS[fmt] = fmt

    def __init__(self, name):""", expect='C17.R7'))

MUTANTS.append(dict(name='Specification drops the derived type table when pickled and rebuilds it when loaded', file=F, quick=True,
                    old="""    @property
    def types(self):""", new="""    def __getstate__(self):
        state = self.__dict__.copy()
        del state['_types']
        return state

    def __setstate__(self, state):
        self.__dict__.update(state)
        self._types = {}

        for types in self._modules.values():
            for type_name, type_ in types.items():
                self._types[type_name] = type_

    @property
    def types(self):""", expect='C17.R8'))
REFACTORS.append(dict(name='explicit identity pickling hooks on Specification', file=F,
                      old="""    @property
    def types(self):""", new="""    def __getstate__(self):
        return self.__dict__.copy()

    def __setstate__(self, state):
        self.__dict__.update(state)

    @property
    def types(self):"""))
