"""C09 -- generated UPER C code: memory safety and agreement with the Python UPER codec (DESIGN.md section 4 C09)."""
import ast
import re

from ..model import AnalysisError, Model, walk_no_nested, norm_stmt
from .. import flow, chelpers, cgen, evalexpr, cinterp, sem

EXPLANATION = (
    'Static analysis of the C helper strings (pycparser) and of the generator trees: (R1) every access to self_p->buf_p in a helper uses a '
    'cursor returned by encoder_alloc/decoder_free in the same function, on a path where `pos < 0` is excluded, and its index stays inside the '
    'allocated bytes (bounded evaluation of the extracted index arithmetic against the allocation lemma); the allocators test pos + size <= size '
    'before advancing and latch the error; only init/alloc/free/abort assign the cursor fields; local arrays are indexed by constants below their '
    'size; helper loops are `for (i = 0; i < size; i++)`; (R2) a bounds check on checker.maximum is emitted before every decode access with a '
    'run-time length, except under does_bits_match_range (whose definition is checked), and the C arrays are declared with the same maximum; '
    '(R3) encode/decode template pairing of every format_*_inner branch; (R4) the helper registry is closed and ordered callee-after-caller; '
    '(R5) unsupported types are rejected, not silently translated to nothing: the dispatch chains cover the same classes and no branch but NULL '
    'emits an empty body; (R6) range errors are raised before a width is chosen; (R7) the C integer type chosen for [minimum, maximum] holds '
    'both ends on every cell (decision-table enumeration); (R8) loop counters and decoded lengths are declared with a type that holds '
    'checker.maximum.  Not decided: byte equality with the Python encoder for all values; that the generated unit compiles; UB in per-type arithmetic.')
GEN = 'asn1tools/source/c/uper.py'
FUN = 'asn1tools/source/c/uper_functions.py'
UTIL = 'asn1tools/source/c/utils.py'
UNIT_BITS = 1
CODEC_MOD = 'uper'


def helper_rules(ctx, pid, rel, unit_bits):
    """R1 and R4 on one helper file (shared with C10)."""
    from pycparser import c_ast
    model = ctx.model
    helpers, structs = chelpers.load_helpers(model, rel)
    R1, R4 = pid + '.R1', pid + '.R4'
    n_acc = 0
    for pat, cname_, text in helpers:
        tree = chelpers.parse_c(text, structs)
        for fd in chelpers.func_defs(tree):
            fname = fd.decl.name
            # buffer accesses
            for acc in chelpers.collect_buffer_accesses(fd):
                n_acc += 1
                ok, why = chelpers.check_access_in_bounds(fd, acc, unit_bits)
                cons = '%s::%s [%s %s]' % (rel, fname, acc.kind, chelpers.csrc(acc.index))
                ctx.instance(R1, cons, 'in bounds' if ok else 'VIOLATION', why, file=rel)
                if not ok:
                    ctx.violation(R1, rel, None, '%s::%s' % (rel, fname),
                                  'buffer access self_p->buf_p[%s] in %s: %s -- a destination buffer one byte too small (or a truncated input) is overrun instead of being reported'
                                  % (chelpers.csrc(acc.index), fname, why), stmt='buf_p[%s]' % chelpers.csrc(acc.index))
            # who assigns the cursor fields
            for node in _walk(fd.body):
                if isinstance(node, c_ast.Assignment) and isinstance(node.lvalue, c_ast.StructRef) and chelpers.cname(node.lvalue) in ('self_p->pos', 'self_p->size', 'self_p->buf_p'):
                    ok = re.search(r'_(init|alloc|free|abort)$', fname) is not None
                    ctx.instance(R1, '%s::%s assigns %s' % (rel, fname, chelpers.cname(node.lvalue)), 'cursor owner' if ok else 'VIOLATION', file=rel)
                    if not ok:
                        ctx.violation(R1, rel, None, '%s::%s' % (rel, fname), '%s modifies %s: only init/alloc/free/abort may move the cursor (bounds are checked there)'
                                      % (fname, chelpers.cname(node.lvalue)), stmt='assigns ' + chelpers.cname(node.lvalue))
            # allocators
            if fname in ('encoder_alloc', 'decoder_free'):
                src = chelpers.csrc(fd.body).replace(' ', '').replace('(', '').replace(')', '')
                ok = 'self_p->pos+ssize_tsize<=self_p->size' in src and 'self_p->pos+=ssize_tsize' in src and \
                    ('encoder_abortself_p,' in src or 'decoder_abortself_p,' in src) and 'pos=-' in src
                ctx.instance(R1, '%s::%s checks pos + size <= size before advancing, aborts otherwise' % (rel, fname), 'ok' if ok else 'VIOLATION', file=rel)
                if not ok:
                    ctx.violation(R1, rel, None, '%s::%s' % (rel, fname), 'the allocator no longer refuses a request that does not fit (pos + size <= size) or no longer latches the error', stmt='allocator check')
            if fname in ('encoder_abort', 'decoder_abort'):
                src = chelpers.csrc(fd.body).replace(' ', '').replace('(', '').replace(')', '')
                ok = 'ifself_p->size>=0' in src and 'self_p->size=-error' in src and 'self_p->pos=-error' in src
                ctx.instance(R1, '%s::%s latches the first error (size, pos = -error)' % (rel, fname), 'ok' if ok else 'VIOLATION', file=rel)
                if not ok:
                    ctx.violation(R1, rel, None, '%s::%s' % (rel, fname), 'abort must set size and pos negative once, so that every later alloc/free fails', stmt='abort latch')
            # local arrays
            arrays = {}
            for node in _walk(fd.body):
                if isinstance(node, c_ast.Decl) and isinstance(node.type, c_ast.ArrayDecl) and node.type.dim is not None:
                    try:
                        arrays[node.name] = chelpers.cev(node.type.dim, {})
                    except Exception:
                        pass
            for node in _walk(fd.body):
                if isinstance(node, c_ast.ArrayRef) and isinstance(node.name, c_ast.ID) and node.name.name in arrays:
                    try:
                        idx = chelpers.cev(node.subscript, {})
                        ok = 0 <= idx < arrays[node.name.name]
                        ctx.instance(R1, '%s::%s %s[%d] of %d' % (rel, fname, node.name.name, idx, arrays[node.name.name]), 'ok' if ok else 'VIOLATION', nontrivial=False, file=rel)
                        if not ok:
                            ctx.violation(R1, rel, None, '%s::%s' % (rel, fname), 'local array %s[%d] indexed with %d' % (node.name.name, arrays[node.name.name], idx), stmt='%s[%d]' % (node.name.name, idx))
                    except KeyError:
                        ctx.instance(R1, '%s::%s %s[%s] (run-time index into a local array of %d)' % (rel, fname, node.name.name, chelpers.csrc(node.subscript), arrays[node.name.name]),
                                     'observation', 'bounded by the generator argument (not decided here)', nontrivial=False, file=rel)
            # loops
            for node in _walk(fd.body):
                if isinstance(node, c_ast.For):
                    c, nx = node.cond, node.next
                    ok = isinstance(c, c_ast.BinaryOp) and c.op == '<' and isinstance(nx, c_ast.UnaryOp) and nx.op in ('p++', '++')
                    ctx.instance(R1, '%s::%s for (%s; %s)' % (rel, fname, chelpers.csrc(c) if c is not None else '', chelpers.csrc(nx) if nx is not None else ''),
                                 'bounded' if ok else 'VIOLATION', nontrivial=False, file=rel)
                    if not ok:
                        ctx.violation(R1, rel, None, '%s::%s' % (rel, fname), 'helper loop is not of the form for (i = 0; i < bound; i++)', stmt='loop shape')
    if n_acc < 2:
        raise AnalysisError('%s: only %d buffer accesses found in %s' % (R1, n_acc, rel))
    # registry
    probs = cgen.registry_problems(helpers)
    ctx.instance(R4, '%s: %d registry entries, callee-after-caller order' % (rel, len(helpers)), 'ok' if not probs else 'VIOLATION', file=rel)
    for name, why in probs:
        ctx.violation(R4, rel, None, '%s::functions[%s]' % (rel, name), why, stmt='registry ' + name)
    return helpers


def arithmetic_rules(ctx, pid, rel, unit_bits):
    """R10: the integer append/read helpers of one library, interpreted by sa/cinterp.py on boundary values: the encoder writes the
    octets / bits the Python codec writes for that field, the decoder reads the value back and advances by exactly that much."""
    from ..cinterp import Val, Ptr, Undecided
    R10 = pid + '.R10'
    ctx.rule(R10, 'C helpers: integer append/read pairs evaluated on boundary values (own interpreter with C integer semantics) against the wire format, encoder and decoder')
    try:
        lib = cinterp.library(ctx.model, rel)
    except Undecided as e:
        ctx.instance(R10, '%s helper library' % rel, 'undecided', str(e), nontrivial=False, file=rel)
        return
    bit_unit = unit_bits == 1        # uper: positions count bits; oer: octets

    def struct():
        return {'buf_p': None, ('type', 'buf_p'): 'ptr', 'size': Val(0, (64, True)), ('type', 'size'): (64, True), 'pos': Val(0, (64, True)), ('type', 'pos'): (64, True)}

    def param_type(fd, i):
        ps = fd.decl.type.args.params
        return lib.type_of_decl(ps[i].type) if i < len(ps) else None

    def run_pair(kind, wfn, rfn, value, extra, lead_bits, rextra=None):
        """-> (written bits as a '0'/'1' string after the lead, value read back, bits consumed) ; lead_bits: 1-bits written first
        (uper: to leave octet alignment)"""
        lib.steps = 0
        size = 40
        e = struct()
        mem = bytearray(size)
        lib.call('encoder_init', [e, Ptr(mem, 0), Val(size, (64, False))])
        for _ in range(lead_bits):
            lib.call('encoder_append_bit', [e, Val(1, (32, True))])
        vt = param_type(lib.funcs[wfn], 1)
        lib.call(wfn, [e, Val(value, vt)] + [Val(x, (8, False)) for x in extra])
        r = lib.call('encoder_get_result', [e])
        if r.v < 0:
            raise Undecided('encoder reports error %d' % r.v)
        pos_bits = e['pos'].v * (1 if bit_unit else 8)
        bits = ''.join(format(b, '08b') for b in mem)[:pos_bits]
        d = struct()
        dm = bytearray(mem[:r.v]) + bytearray(b'\xa5' * 4)
        lib.call('decoder_init', [d, Ptr(dm, 0), Val(len(dm), (64, False))])
        for _ in range(lead_bits):
            lib.call('decoder_read_bit', [d])
        got = lib.call(rfn, [d] + [Val(x, (8, False)) for x in (extra if rextra is None else rextra)])
        used = d['pos'].v * (1 if bit_unit else 8)
        return bits[lead_bits:], got.v, used - lead_bits

    def boundary_values(lo, hi):
        vals = {lo, hi, 0, 1, -1, lo + 1, hi - 1}
        for k in (7, 8, 15, 16, 23, 24, 31, 32, 39, 47, 48, 55, 56, 63):
            for v in (1 << k, (1 << k) - 1, (1 << k) + 1, -(1 << k), -(1 << k) - 1, (1 << k) | (1 << (k - 7)), 0x9c40 << max(0, k - 15)):
                vals.add(v)
        return sorted(v for v in vals if lo <= v <= hi)
    cases = []       # (label, kind, writer, reader, value, extra args, expected bits)
    for name in sorted(lib.funcs):
        if not name.startswith('encoder_append_'):
            continue
        x = name[len('encoder_append_'):]
        rname = 'decoder_read_' + x
        if rname not in lib.funcs:
            continue
        m_ = re.match(r'^(u?)int(8|16|32|64)$', x)
        if m_:
            unsigned, w = m_.group(1) == 'u', int(m_.group(2))
            lo, hi = (0, (1 << w) - 1) if unsigned else (-(1 << (w - 1)), (1 << (w - 1)) - 1)
            for v in boundary_values(lo, hi):
                if bit_unit:
                    field = v if unsigned else v + (1 << (w - 1))       # X.691 10.5: offset from the lower bound of the full range
                else:
                    field = v & ((1 << w) - 1)                          # X.696 10: two's complement, big endian
                cases.append(('%s(%d)' % (name, v), x, name, rname, v, [], format(field, '0%db' % w)))
        elif x in ('uint', 'int') and not bit_unit:
            for nb in (1, 2, 3, 4):
                lo, hi = (0, (1 << (8 * nb)) - 1) if x == 'uint' else (-(1 << (8 * nb - 1)), (1 << (8 * nb - 1)) - 1)
                for v in boundary_values(lo, hi):
                    cases.append(('%s(%d, %d)' % (name, v, nb), x, name, rname, v, [nb], format(v & ((1 << (8 * nb)) - 1), '0%db' % (8 * nb))))
        elif x == 'non_negative_binary_integer' and bit_unit:
            for nb in (1, 2, 7, 8, 9, 15, 16, 17, 31, 32, 33, 63, 64):
                for v in boundary_values(0, (1 << nb) - 1):
                    cases.append(('%s(%d, %d)' % (name, v, nb), x, name, rname, v, [nb], format(v, '0%db' % nb)))
        elif x == 'length_determinant' and not bit_unit:
            for v in (0, 1, 127, 128, 255, 256, 65535, 65536, (1 << 24) - 1, 1 << 24, (1 << 32) - 1):
                if v < 128:
                    ref = format(v, '08b')
                else:
                    nb = (v.bit_length() + 7) // 8
                    ref = format(0x80 | nb, '08b') + format(v, '0%db' % (8 * nb))      # X.696 8.6.5: fewest octets
                cases.append(('%s(%d)' % (name, v), x, name, rname, v, [], ref))
        elif x == 'bool':
            for v in (0, 1):
                cases.append(('%s(%d)' % (name, v), x, name, rname, v, [], ('1' if v else '0') if bit_unit else ('11111111' if v else '00000000')))
    groups = {}
    n_ok = n_und = 0
    und = None
    leads = (0, 1, 3, 7) if bit_unit else (0,)
    for label, kind, wfn, rfn, v, extra, want in cases:
        for lead in leads:
            try:
                bits, got, used = run_pair(kind, wfn, rfn, v, extra, lead)
            except Undecided as e:
                n_und += 1
                und = und or '%s: %s' % (label, e)
                continue
            msg = None
            if bits != want:
                msg = 'writes %s, the wire format is %s' % (bits, want)
            elif got != v or used != len(want):
                msg = 'the octets %s are read back as %d (%d bits consumed)' % (format(int(want, 2), 'x') if want else '', got, used)
            if msg is None:
                n_ok += 1
            else:
                groups.setdefault((wfn if bits != want else rfn), ('%s%s' % (label, (' at bit offset %d' % lead) if lead else ''), msg))
    # CHOICE tags (X.696 8.7): written octet by octet with encoder_append_uint(<tag>, <number of octets>), read with decoder_read_tag: every valid tag -- one octet
    # for numbers below 63, else 0x3f | class followed by the number in base 128 with continuation bits, any group but the first may be zero -- is read back whole
    if 'decoder_read_tag' in lib.funcs and 'encoder_append_uint' in lib.funcs and not bit_unit:
        for cls_ in (0, 1, 2, 3):
            for num in (0, 1, 62, 63, 64, 127, 128, 129, 255, 16383, 16384, 16385, 16384 + 127, 32768, 32768 + 5, 49152, 2 * 16384 + 128, 2097151):
                if num < 63:
                    octs = [(cls_ << 6) | num]
                else:
                    groups_ = []
                    n_ = num
                    while True:
                        groups_.insert(0, n_ & 0x7f)
                        n_ >>= 7
                        if not n_:
                            break
                    octs = [(cls_ << 6) | 0x3f] + [g_ | 0x80 for g_ in groups_[:-1]] + [groups_[-1]]
                if len(octs) > 4:
                    continue
                tv = int.from_bytes(bytes(octs), 'big')
                cases_tag = ('decoder_read_tag(class %d, number %d = %s)' % (cls_, num, bytes(octs).hex()), tv, len(octs))
                try:
                    bits, got, used = run_pair('tag', 'encoder_append_uint', 'decoder_read_tag', tv, [len(octs)], 0, rextra=[])
                except Undecided as e:
                    if 'error' in str(e) or 'abort' in str(e):
                        groups.setdefault('decoder_read_tag', (cases_tag[0], 'the valid tag is rejected (%s)' % e))
                    else:
                        n_und += 1
                        und = und or '%s: %s' % (cases_tag[0], e)
                    continue
                if got != tv or used != 8 * len(octs):
                    groups.setdefault('decoder_read_tag', (cases_tag[0], 'the tag octets %s are read back as %#x (%d bits consumed)' % (bytes(octs).hex(), got, used)))
                else:
                    n_ok += 1
    ctx.instance(R10, '%s: %d (helper, value, offset) cases evaluated, %d undecided' % (rel, n_ok, n_und), 'VIOLATION' if groups else ('ok' if n_ok else 'undecided'), und or '',
                 nontrivial=n_ok > 0, file=rel)
    for fn, (label, msg) in sorted(groups.items()):
        ctx.violation(R10, rel, None, '%s::%s' % (rel, fn), '%s: %s -- the generated C code and the Python codec disagree on this value' % (label, msg), stmt='helper arithmetic ' + fn)


def _walk(node):
    out = [node]
    for _k, ch in node.children():
        out.extend(_walk(ch))
    return out


def generator_rules(ctx, pid, gen_rel, fun_rel, codec):
    """R2..R8 on one generator (shared with C10)."""
    model = ctx.model
    g = model.cls(gen_rel, '_Generator')
    base = model.cls(UTIL, 'Generator')
    helpers, _structs = chelpers.load_helpers(model, fun_rel)
    R2, R3, R4, R5, R6, R7, R8 = [pid + '.R%d' % i for i in range(2, 9)]

    # ---- R2 bounds before run-time-length accesses.  The emitted `if (length > maximum) { decoder_abort(..); return; }` may be left out only when every bit
    #      pattern of the length field is a legal length.  Whatever Python condition decides the omission (a predicate such as does_bits_match_range, a helper
    #      that returns the guard or nothing) is *evaluated* with the checker's own evaluator on a grid of (minimum, maximum) with the field width the codec
    #      uses: wherever the field over-covers the range (2**bits - 1 + minimum > maximum) the guard must be emitted.
    GUARD_LINE = re.compile(r'if \(.*(length|\{[^}]*\})\s*>\s*\{[^}]*\}u\)* \{\{')

    def grid():
        for lo in (0, 1, 3, 5):
            for d in (1, 2, 3, 5, 6, 7, 8, 15, 16, 100, 254, 255, 256, 1000):
                yield lo, lo + d, d.bit_length()

    def holds(conds, env):
        """do all (text, polarity) literals hold?  -> True / False / None (not evaluable)"""
        for t, pol in conds:
            try:
                v = evalexpr.ev(sem.parse_expr(t), env)
            except (evalexpr.Unsupported, KeyError, TypeError, SyntaxError, evalexpr.Raised):
                return None
            if bool(v) != pol:
                return False
        return True

    def omission_ok(conds_fn, offset_is_minimum):
        """conds_fn(env) -> emitted? ; first grid cell on which the guard is left out although the field over-covers the range, None when there is none,
        'undecided' when the condition cannot be evaluated"""
        for lo, hi, bits in grid():
            off = lo if offset_is_minimum else 0
            env = {'type_.number_of_bits': bits, 'checker.minimum': lo, 'checker.maximum': hi, 'type_.minimum': lo, 'type_.maximum': hi,
                   '__funcs__': (lambda name: (lambda r: r if isinstance(r, ast.FunctionDef) else None)(model.mod(gen_rel).resolve_name(name)))}
            emitted = conds_fn(env)
            if emitted is None:
                return 'undecided'
            if not emitted and (2 ** bits - 1) + off > hi:
                return (lo, hi, bits)
        return None

    def helper_guards(f):
        """calls in f of a function (module-level or method of the generator) that returns a list holding a length guard: [(call, helper, guard constant, paths that return it)]"""
        out = []
        for c in walk_no_nested(f):
            if not isinstance(c, ast.Call):
                continue
            h = None
            if isinstance(c.func, ast.Name):
                r_ = model.mod(gen_rel).resolve_name(c.func.id)
                h = r_ if isinstance(r_, ast.FunctionDef) else None
            elif isinstance(c.func, ast.Attribute) and isinstance(c.func.value, ast.Name) and c.func.value.id == 'self':
                r_ = g.find_method(c.func.attr)
                h = r_[1] if r_ else None
            if h is None or h is f:
                continue
            gcs = [k for k in ast.walk(h) if isinstance(k, ast.Constant) and isinstance(k.value, str) and GUARD_LINE.search(k.value)]
            if not gcs or 'decoder_abort(decoder_p' not in ast.unparse(h):
                continue
            ps_ = sem.paths(h, positional=True)
            if ps_ is None:
                continue
            emitting = [p_ for p_ in ps_ if p_.outcome[0] == 'return' and len(p_.outcome) > 3 and p_.outcome[3] is not None
                        and any(isinstance(k, ast.Constant) and isinstance(k.value, str) and GUARD_LINE.search(k.value) for k in ast.walk(p_.outcome[3]))]
            out.append((c, h, gcs[0], emitting))
        return out
    n_acc = 0
    for name, f in sorted(g.methods.items()):
        if not name.startswith('format_') or not name.endswith('_inner'):
            continue
        accesses = cgen.runtime_length_accesses(f)
        guards = cgen.length_guards(f)
        hguards = helper_guards(f)
        # is the received length offset by the minimum before it is compared?  ( `length += {}u`.format(checker.minimum) among the decode lines )
        offset_min = any(isinstance(k, ast.Call) and isinstance(k.func, ast.Attribute) and k.func.attr == 'format' and isinstance(k.func.value, ast.Constant)
                         and isinstance(k.func.value.value, str) and '+=' in k.func.value.value and 'checker.minimum' in ast.unparse(k) for k in walk_no_nested(f))
        for c, what in accesses:
            n_acc += 1
            aconds = cgen.conds_of(c, f)
            good = None
            why_not = None
            for gd in guards:
                if (gd.lineno, gd.col_offset) >= (c.lineno, c.col_offset):      # source position, not line: the template list may be written on one line
                    continue
                # the guard must interpolate checker.maximum
                call = getattr(gd, '_parent', None)
                while call is not None and not (isinstance(call, ast.Call) and isinstance(call.func, ast.Attribute) and call.func.attr == 'format'):
                    call = getattr(call, '_parent', None)
                if call is None or 'checker.maximum' not in ast.unparse(call):
                    continue
                lst = getattr(gd, '_parent', None)
                while lst is not None and not isinstance(lst, (ast.List, ast.stmt)):
                    lst = getattr(lst, '_parent', None)
                txt = ast.unparse(lst) if lst is not None else ''
                if not ('decoder_abort(decoder_p' in txt and 'return;' in txt):
                    continue
                extra = [x for x in cgen.conds_of(gd, f) if x not in aconds]
                cell = omission_ok(lambda env, extra=extra: holds(extra, env), offset_min) if extra else None
                if cell is None:
                    good = gd
                elif cell == 'undecided':
                    why_not = why_not or 'undecided'
                else:
                    why_not = 'the guard is emitted only under %s; for SIZE (%d..%d) (a field of %d bits) it is left out although the field can hold %d' % (
                        ' and '.join(('' if pol else 'not ') + t for t, pol in extra), cell[0], cell[1], cell[2], 2 ** cell[2] - 1 + (cell[0] if offset_min else 0))
            for hc, h, gconst, emitting in hguards:
                if (hc.lineno, hc.col_offset) >= (c.lineno, c.col_offset) or good is not None:
                    continue
                hp = flow.param_names(h)
                if hp and hp[0] in ('self', 'cls'):
                    hp = hp[1:]
                argtexts = [ast.unparse(a_) for a_ in hc.args]
                if not any('maximum' in t for t in argtexts):
                    continue
                extra = [x for x in cgen.conds_of(hc, f) if x not in aconds]

                def emitted(env, h=h, emitting=emitting, argtexts=argtexts, extra=extra):
                    outer = holds(extra, env)
                    if outer is None or outer is False:
                        return outer
                    env2 = dict(env)
                    for k_, t_ in enumerate(argtexts):
                        try:
                            env2['ARG%d' % k_] = evalexpr.ev(sem.parse_expr(t_), env)
                        except (evalexpr.Unsupported, KeyError, TypeError, SyntaxError):
                            env2['ARG%d' % k_] = 'x'       # a name / text argument: irrelevant to the numeric condition
                    res = False
                    for p_ in emitting:
                        r_ = holds([(c_[0], c_[1]) for c_ in p_.conds], env2)
                        if r_ is None:
                            return None
                        res = res or r_
                    return res
                cell = omission_ok(emitted, offset_min)
                if cell is None:
                    good = gconst
                elif cell == 'undecided':
                    why_not = why_not or 'undecided'
                else:
                    why_not = 'the guard comes from %s(%s), which leaves it out for SIZE (%d..%d) (a field of %d bits) although the decoded length can be %d' % (
                        h.name, ', '.join(argtexts), cell[0], cell[1], cell[2], 2 ** cell[2] - 1 + (cell[0] if offset_min else 0))
            cons = '%s [%s: %s]' % (Model.qual(f), what, c.value.strip()[:50])
            if good is None and why_not == 'undecided':
                ctx.instance(R2, cons, 'undecided', 'the condition under which the bounds check is emitted is not evaluable', nontrivial=False, node=c, file=gen_rel)
                continue
            ctx.instance(R2, cons, 'guarded by `%s`' % good.value.strip() if good is not None else 'VIOLATION', node=c, file=gen_rel)
            if good is None:
                ctx.violation(R2, gen_rel, c, Model.qual(f),
                              'the decoder template uses a length decoded at run time (%s) without an emitted `if (length > maximum) { decoder_abort(...); return; }` before it%s: '
                              'a received length above the declared maximum indexes past the fixed-size C array' % (what, (' -- ' + why_not) if why_not else ''),
                              stmt='unguarded run-time length: ' + c.value.strip()[:60])
    floor = 1      # the templates may be merged or split by a refactoring of the generator: at least one must be recognised
    ctx.extra['%s_runtime_length_accesses' % pid] = n_acc
    if n_acc < floor and not any(x.rule == R2 for x in ctx.findings):
        # the decode templates are not written as string constants of the format_*_inner methods (e.g. assembled by shared helper
        # functions): this rule reads templates, it does not evaluate the generator -- recorded as undecided, never an alarm
        ctx.instance(R2, '%s: run-time-length accesses of the decode templates' % gen_rel, 'undecided',
                     'no decode template that uses a run-time length was recognised in the format_*_inner methods', nontrivial=False, file=gen_rel)
        ctx.note('%s undecided: the decode templates of %s are not in a recognised shape' % (R2, gen_rel))
    # array declarations use checker.maximum
    for qual, pat in (('Generator.format_octet_string', 'uint8_t buf[{}];'), ('Generator.format_sequence_of', ' elements[{}];')):
        f = model.func(UTIL, qual)
        ok = False
        for c in ast.walk(f):
            if isinstance(c, ast.Call) and isinstance(c.func, ast.Attribute) and c.func.attr == 'format' and isinstance(c.func.value, ast.Constant) \
                    and pat in str(c.func.value.value):
                ok = len(c.args) == 1 and ast.unparse(c.args[0]) == 'checker.maximum'
        ctx.instance(R2, '%s declares the array with checker.maximum' % Model.qual(f), 'ok' if ok else 'VIOLATION', node=f, file=UTIL)
        if not ok:
            ctx.violation(R2, UTIL, f, Model.qual(f), 'the C array must be declared with exactly checker.maximum elements (the emitted bounds check compares with the same value)', stmt='array size')

    # ---- R3 template pairing: along every path of a two-sided format method, the helper kinds appended to the encode lines match
    #      those appended to the decode lines (one-sided helpers contribute to the side their result goes to)
    n3 = 0
    from .. import sem as _sem
    gres = _sem.class_resolver(g)
    for name, f in sorted(g.methods.items()):
        if not (name.startswith('format_') and name.endswith('_inner')) or name in ('format_type_inner', 'format_user_type_inner', 'format_null_inner'):
            continue
        consts = cgen.classify_constants(f)
        kinds = cgen.helper_kinds(consts)
        if not cgen.returns_pair(f):
            ctx.instance(R3, '%s enc{%s} dec{%s}' % (Model.qual(f), ','.join(sorted(kinds['enc'])), ','.join(sorted(kinds['dec']))), 'one-sided helper',
                         'its templates are paired where its result is used', nontrivial=False, node=f, file=gen_rel)
            continue
        n3 += 1
        probs = cgen.path_pairing(f, gres)
        if probs is None:
            # too many paths: the function as a whole
            prob = cgen.pairing_problem(kinds)
            probs = [('any path', prob)] if prob else []
        empty = not kinds['enc'] and not kinds['dec']
        ok = not probs
        if not ok:
            loose = cgen.unattributed_templates(f, gres)
            if loose:
                ctx.instance(R3, '%s enc{%s} dec{%s}' % (Model.qual(f), ','.join(sorted(kinds['enc'])), ','.join(sorted(kinds['dec']))), 'undecided',
                             '%d helper templates (%r ...) are built where their side cannot be attributed (nested function, callback, neutral name)' % (len(loose), loose[0].value[:50]),
                             nontrivial=False, node=f, file=gen_rel)
                continue
        ctx.instance(R3, '%s enc{%s} dec{%s}' % (Model.qual(f), ','.join(sorted(kinds['enc'])), ','.join(sorted(kinds['dec']))),
                     ('paired' if not empty else 'emits nothing') if ok else 'VIOLATION', node=f, file=gen_rel)
        if not ok:
            cond, prob = probs[0]
            ctx.violation(R3, gen_rel, f, Model.qual(f),
                          'encode and decode templates use different helper kinds%s: %s -- the generated decoder does not read what the generated encoder writes'
                          % ((' on the path `%s`' % cond[:200]) if cond not in ('always', 'any path') else '', prob), stmt='template pairing')
    if n3 < 6:
        raise AnalysisError('%s compared only %d generator methods' % (R3, n3))

    # ---- R4 closure: every helper named in a template is in the registry
    names = {p[:-1] for p, _n, _t in helpers}
    used = cgen.template_helper_names(model, gen_rel)
    used.update(cgen.template_helper_names(model, UTIL))
    for nm, node in sorted(used.items()):
        ok = nm in names
        ctx.instance(R4, '%s used in a template' % nm, 'registered' if ok else 'VIOLATION', nontrivial=False, node=node, file=gen_rel)
        if not ok and (nm.startswith('encoder_') or nm.startswith('decoder_')):
            ctx.violation(R4, gen_rel, node, '%s::template helper %s' % (gen_rel, nm), 'the generated code calls %s(), which has no (pattern, definition) entry in the helper registry: it would not be emitted' % nm,
                          stmt='unregistered helper ' + nm)

    # ---- R5 reject, don't mis-translate (decided on the path summaries of the four dispatching methods)
    summ = {}
    dm = {}
    for mn in ('format_type', 'format_type_inner', 'generate_type_declaration_process', 'generate_definition_inner_process'):
        r_ = g.find_method(mn)          # the generator's own method, or the one it inherits from utils.Generator
        if r_ is None:
            raise AnalysisError('%s.%s vanished' % (gen_rel, mn))
        f = dm[mn] = r_[1]
        summ[mn] = cgen.dispatch_summary(f, g)
        if summ[mn] is None:
            ctx.instance(R5, '%s.%s' % (gen_rel, mn), 'undecided', 'too many paths', nontrivial=False, node=f, file=gen_rel)
    sets = {mn: set().union(*[e[0] for e in sm]) if sm else set() for mn, sm in summ.items() if sm is not None}
    if 'format_type' in sets and not sets['format_type']:
        raise AnalysisError('%s.format_type: no isinstance dispatch found' % gen_rel)
    ref = sets.get('format_type', set())
    for mn, s_ in sorted(sets.items()):
        ok = s_ == ref
        ctx.instance(R5, '%s.%s handles %s' % (gen_rel, mn, sorted(s_)), 'same set' if ok else 'VIOLATION', node=dm[mn], file=gen_rel)
        if not ok:
            ctx.violation(R5, gen_rel, dm[mn], '%s::_Generator.%s' % (gen_rel, mn),
                          'the dispatch chains disagree on the supported classes: %s handles %s, format_type handles %s -- a type accepted by one pass is dropped by another'
                          % (mn, sorted(s_), sorted(ref)), stmt='dispatch sets differ')

    def else_raises(mn):
        rest = [e for e in summ[mn] if not e[0] and not e[1]]
        return bool(rest) and all(e[2] == 'raise' for e in rest), rest
    for mn, sm in sorted(summ.items()):
        if sm is None:
            continue
        ok, rest = else_raises(mn)
        if not ok and mn == 'generate_definition_inner_process' and summ.get('generate_type_declaration_process') is not None:
            # generate() runs the declaration pass first: an unsupported class is rejected there,
            # provided that pass raises for every other class and handles the same classes
            ok = else_raises('generate_type_declaration_process')[0] and sets['generate_definition_inner_process'] == sets['generate_type_declaration_process']
        ctx.instance(R5, '%s.%s else-branch' % (gen_rel, mn), 'raises' if ok else 'VIOLATION', node=dm[mn], file=gen_rel)
        if not ok:
            how = 'no else'
            for e in rest:
                if e[2] != 'raise':
                    how = ('return %s' % ast.unparse(e[3])) if e[3] is not None else e[2]
            ctx.violation(R5, gen_rel, dm[mn], '%s::_Generator.%s::else' % (gen_rel, mn),
                          'an unsupported type falls through %s without an error (%s): it is accepted and silently not encoded' % (mn, how), stmt='else does not raise')
        # every handled class must produce something: not an empty literal, and not a call of a method that returns empty
        seen_cls = set()
        for names, user, kind, val, p_ in sm:
            for cname_ in sorted(names):
                if cname_ == 'Null' or cname_ in seen_cls:
                    continue
                seen_cls.add(cname_)
                empty = val is not None and cgen.value_is_empty(val)
                callee_empty = None
                if val is not None and isinstance(val, ast.Call) and isinstance(val.func, ast.Attribute) and isinstance(val.func.value, ast.Name) and val.func.value.id == 'self':
                    r = g.find_method(val.func.attr)
                    if r and cgen.method_returns_empty(r[1]):
                        callee_empty = r[1]
                ok = not empty and callee_empty is None
                ctx.instance(R5, '%s.%s[%s]' % (gen_rel, mn, cname_), 'emits code' if ok else 'VIOLATION', nontrivial=False, node=dm[mn], file=gen_rel)
                if not ok:
                    tgt = callee_empty if callee_empty is not None else dm[mn]
                    ctx.violation(R5, gen_rel, tgt, '%s::_Generator.%s[%s]' % (gen_rel, mn, cname_),
                                  'a member of class %s is accepted by %s but %s produces nothing: the value is silently left out of the encoding and not decoded '
                                  '(the generator must reject what it cannot translate)' % (cname_, mn, ('%s()' % callee_empty.name) if callee_empty is not None else 'the branch'),
                                  stmt='empty translation of %s' % cname_)

    # ---- R6 range errors
    tl = model.func(UTIL, 'Generator.type_length')
    # bounded evaluation of type_length on ranges that no 64-bit C type holds: every one must be rejected
    beyond = [(-2 ** 63 - 1, 0), (-2 ** 64, -1), (0, 2 ** 64), (5, 2 ** 65), (-1, 2 ** 63), (-2 ** 63 - 1, 2 ** 63), (-5, 2 ** 64)]
    accepted = [(lo_, hi_, t_) for lo_, hi_ in beyond for t_ in [cgen.c_type_for(model, lo_, hi_)] if t_ not in ('ERROR', 'UNDECIDED')]
    n_und6 = sum(1 for lo_, hi_ in beyond if cgen.c_type_for(model, lo_, hi_) == 'UNDECIDED')
    ok = not accepted
    ctx.instance(R6, 'type_length raises for ranges beyond 64 bits (%d ranges evaluated, %d undecided)' % (len(beyond) - n_und6, n_und6),
                 ('ok' if n_und6 < len(beyond) else 'undecided') if ok else 'VIOLATION', nontrivial=n_und6 < len(beyond), node=tl, file=UTIL)
    if not ok:
        lo_, hi_, t_ = accepted[0]
        ctx.violation(R6, UTIL, tl, Model.qual(tl), 'ranges that do not fit into 64 bits must be rejected before a width is selected: INTEGER (%d..%d) is given the C type %s%d_t'
                      % (lo_, hi_, t_[0], t_[1]), stmt='64-bit check')
    for qual, n_r in (('Generator.format_integer', 2), ('Generator.format_octet_string', 1), ('Generator.format_sequence_of', 1), ('Generator.format_bit_string', 2)):
        f = model.func(UTIL, qual)
        rs = [n for n in walk_no_nested(f) if isinstance(n, ast.Raise) and 'self.error(' in ast.unparse(n)]
        ok = len(rs) >= n_r
        ctx.instance(R6, '%s rejects missing bounds (%d raise)' % (Model.qual(f), len(rs)), 'ok' if ok else 'VIOLATION', node=f, file=UTIL)
        if not ok:
            ctx.violation(R6, UTIL, f, Model.qual(f), 'a type without the bounds the C representation needs must be rejected with an error', stmt='missing-bounds check')

    # ---- R7 the C type holds the range
    pts = cgen.range_points()
    cells = 0
    undecided7 = 0
    groups = {}
    for lo in pts:
        for hi in pts:
            if hi < lo:
                continue
            cells += 1
            t = cgen.c_type_for(model, lo, hi)
            if t == 'ERROR':
                continue
            if t == 'UNDECIDED':
                undecided7 += 1
                continue
            if not cgen.type_holds(t, lo, hi):
                key = ('%s%d_t' % t, 'minimum < 0' if lo < 0 else 'minimum >= 0')
                groups.setdefault(key, (lo, hi))
    ctx.extra['c_type_cells'] = cells
    ctx.instance(R7, 'type_length/format_type_name on %d (minimum, maximum) cells, %d undecided' % (cells, undecided7),
                 ('ok' if undecided7 < cells else 'undecided') if not groups else 'VIOLATION', nontrivial=undecided7 < cells, node=tl, file=UTIL)
    for (tname, sign), (lo, hi) in sorted(groups.items()):
        ctx.violation(R7, UTIL, tl, Model.qual(tl),
                      'for INTEGER (%d..%d) the generator declares the C field as %s, which cannot hold the whole range: the value is truncated when stored and the wire width '
                      'differs from the Python codec' % (lo, hi, tname), stmt='%s chosen for a range it cannot hold (%s)' % (tname, sign))

    # ---- R8 loop counter / decoded length types cover checker.maximum
    f = g.methods.get('format_sequence_of_inner')
    calls = [c for c in walk_no_nested(f) if isinstance(c, ast.Call) and ast.unparse(c.func) == 'self.format_type_name']
    ok = bool(calls) and all(len(c.args) == 2 and ast.unparse(c.args[0]) == '0' and ast.unparse(c.args[1]) == 'checker.maximum' for c in calls)
    ctx.instance(R8, '%s: loop counter / length type = format_type_name(0, checker.maximum)' % Model.qual(f), 'ok' if ok else 'VIOLATION', node=f, file=gen_rel)
    if not ok:
        ctx.violation(R8, gen_rel, calls[0] if calls else f, Model.qual(f),
                      'the loop counter of `for (i = 0; i < length; i++)` and the cast of the decoded length must use a type that holds checker.maximum; found %s -- with a maximum of '
                      '256 the counter wraps and the generated loop never terminates' % [ast.unparse(c) for c in calls], stmt='loop counter type')

    # a scratch variable that receives a value read with a width decided at run time (decoder_read_uint(decoder_p, <n>): the OER quantity / length) holds whatever
    # that many octets can carry until it is compared with checker.maximum: declared with a fixed narrow type it truncates first and compares afterwards
    for name, f8 in sorted(g.methods.items()):
        allocs = {}
        for a_ in walk_no_nested(f8):
            if isinstance(a_, ast.Assign) and isinstance(a_.targets[0], ast.Name) and isinstance(a_.value, ast.Call) and isinstance(a_.value.func, ast.Attribute) \
                    and a_.value.func.attr.startswith('add_unique_') and a_.value.args:
                allocs[a_.targets[0].id] = a_.value.args[0]
        for c_ in walk_no_nested(f8):
            if not (isinstance(c_, ast.Call) and isinstance(c_.func, ast.Attribute) and c_.func.attr == 'format' and isinstance(c_.func.value, ast.Constant)
                    and isinstance(c_.func.value.value, str)):
                continue
            t_ = c_.func.value.value
            m_ = re.match(r'^\{\w*\} = (\([^)]*\))?decoder_read_uint\(', t_)
            if not m_ or not c_.args:
                continue
            v_ = c_.args[0]
            if not (isinstance(v_, ast.Name) and v_.id in allocs):
                continue
            decl = allocs[v_.id]
            narrow = isinstance(decl, ast.Constant) and isinstance(decl.value, str) and re.match(r'^u?int(8|16)_t ', decl.value)
            bounded = any(isinstance(an_, ast.If) and 'maximum' in ast.unparse(an_.test) and re.search(r'<\s*(256|65536)|<=\s*(255|65535)', ast.unparse(an_.test)) for an_ in flow.ancestors(c_))
            ok8 = not narrow or bounded
            ctx.instance(R8, '%s: `%s` receives decoder_read_uint(..), declared %s' % (Model.qual(f8), v_.id, ast.unparse(decl)[:40]), 'ok' if ok8 else 'VIOLATION', node=c_, file=gen_rel)
            if not ok8:
                ctx.violation(R8, gen_rel, c_, Model.qual(f8),
                              'the generated variable `%s` is declared `%s` and receives decoder_read_uint(decoder_p, <number of octets from the wire>) before the comparison with '
                              'checker.maximum: a quantity of 256 or more is truncated first, so the bound check and the element count use the value modulo 256 (270 elements decode as 14)'
                              % (v_.id, decl.value.strip()), stmt='narrow variable receives a run-time-width read')

    # ---- R11 scratch ownership: a generated local variable is allocated (add_unique_*variable) by the invocation that uses it.  The lifetimes of the scratch
    #      variables of nested types overlap in the generated function (an inner SEQUENCE is emitted between the outer one's write and read of its buffer), so a
    #      name that is kept on the generator object and handed out again is shared by invocations that are both live.
    R11 = pid + '.R11'
    ctx.rule(R11, 'generated scratch variables are allocated per use: the result of add_unique_*variable is bound to a local of the invocation, never kept on the generator')
    alloc = {'add_unique_variable', 'add_unique_encode_variable', 'add_unique_decode_variable'}
    n11 = 0
    for rel in (UTIL, gen_rel):
        mm = model.mod(rel)
        fs = [fn for c_ in mm.classes.values() for fn in c_.methods.values()]
        # wrappers that only return a fresh allocation are allocators themselves
        grew = True
        while grew:
            grew = False
            for fn in fs:
                if fn.name in alloc:
                    continue
                rets = [r_ for r_ in walk_no_nested(fn) if isinstance(r_, ast.Return) and r_.value is not None]
                if rets and all(isinstance(r_.value, ast.Call) and isinstance(r_.value.func, ast.Attribute) and r_.value.func.attr in alloc for r_ in rets) \
                        and not any(isinstance(n_, ast.Assign) and any(not isinstance(t_, ast.Name) for t_ in n_.targets) for n_ in walk_no_nested(fn)):
                    alloc.add(fn.name)
                    grew = True
        for fn in fs:
            for n_ in walk_no_nested(fn):
                if not (isinstance(n_, ast.Call) and isinstance(n_.func, ast.Attribute) and n_.func.attr in alloc):
                    continue
                n11 += 1
                st = Model.enclosing_stmt(n_)
                kept = None
                if isinstance(st, ast.Assign):
                    for t_ in st.targets:
                        for x_ in ast.walk(t_):
                            if isinstance(x_, (ast.Attribute, ast.Subscript)) and 'self' in {y_.id for y_ in ast.walk(x_) if isinstance(y_, ast.Name)}:
                                kept = ast.unparse(t_)
                elif isinstance(st, ast.Expr) and isinstance(st.value, ast.Call) and isinstance(st.value.func, ast.Attribute) \
                        and st.value.func.attr in ('append', 'add', 'setdefault', 'update', 'extend') and ast.unparse(st.value.func.value).startswith('self.'):
                    kept = ast.unparse(st.value.func.value)
                ctx.instance(R11, '%s: %s' % (Model.qual(fn), ast.unparse(n_)[:80]), 'local to the invocation' if kept is None else 'VIOLATION', node=n_, file=rel)
                if kept is not None:
                    ctx.violation(R11, rel, n_, Model.qual(fn),
                                  'the generated variable allocated by %s is kept in %s and handed out again: nested types whose scratch lifetimes overlap in the generated function '
                                  '(an inner SEQUENCE between the outer one writing and reading its buffer) share it, so the outer value is overwritten' % (ast.unparse(n_)[:80], kept),
                                  stmt=norm_stmt(st))
    if n11 < 5:
        raise AnalysisError('%s examined only %d allocations of generated variables' % (R11, n11))

    # ---- R12 re-entrancy: the format_*_inner methods call each other recursively (an inline SEQUENCE inside a SEQUENCE is formatted by a nested invocation of the same
    #      method).  What one invocation records about *its* members - keyed by the member name, which is unique only within one type - lives in a local; a map kept on the
    #      generator object is shared with the nested invocation, which overwrites the entry of an equally named member of the enclosing type.
    R12 = pid + '.R12'
    ctx.rule(R12, 're-entrant generator methods keep what they record per member (maps keyed by a member / type name) in locals, not on the generator object')
    meths = {}
    for k_ in (g, base):
        for mn_, fn in k_.methods.items():
            meths.setdefault(mn_, fn)
    calls_of = {mn_: {c_.func.attr for c_ in walk_no_nested(fn) if isinstance(c_, ast.Call) and isinstance(c_.func, ast.Attribute) and isinstance(c_.func.value, ast.Name)
                      and c_.func.value.id == 'self' and c_.func.attr in meths} for mn_, fn in meths.items()}

    def reaches(a_, b_, seen=None):
        seen = seen or set()
        for c_ in calls_of.get(a_, ()):
            if c_ == b_:
                return True
            if c_ not in seen:
                seen.add(c_)
                if reaches(c_, b_, seen):
                    return True
        return False
    reentrant = {mn_ for mn_ in meths if reaches(mn_, mn_)}
    n12 = 0
    bad12 = []
    for mn_ in sorted(meths):
        fn = meths[mn_]
        # the method is re-entrant, or runs inside a re-entrant one
        if not (mn_ in reentrant or any(reaches(r_, mn_) for r_ in reentrant)):
            continue
        for n_ in walk_no_nested(fn):
            tgt = None
            if isinstance(n_, ast.Assign):
                for t_ in n_.targets:
                    if isinstance(t_, ast.Subscript) and isinstance(t_.value, ast.Attribute) and isinstance(t_.value.value, ast.Name) and t_.value.value.id == 'self':
                        tgt = t_
            if tgt is None:
                continue
            n12 += 1
            by_name = any(isinstance(x_, ast.Attribute) and x_.attr in ('name', 'type_name') for x_ in ast.walk(tgt.slice))
            attr_ = tgt.value.attr
            read_back = any(isinstance(x_, (ast.Subscript, ast.Call, ast.Compare)) and any(isinstance(y_, ast.Attribute) and y_.attr == attr_ and isinstance(y_.ctx, ast.Load)
                                                                                           and isinstance(y_.value, ast.Name) and y_.value.id == 'self' for y_ in ast.walk(x_))
                            and not (isinstance(x_, ast.Subscript) and x_ is tgt)
                            for m2 in meths.values() for x_ in walk_no_nested(m2))
            verdict = 'VIOLATION' if (by_name and read_back) else 'ok'
            ctx.instance(R12, '%s: self.%s[%s] = ...' % (Model.qual(fn), attr_, ast.unparse(tgt.slice)[:40]), verdict if verdict == 'VIOLATION' else ('keyed by a unique name' if not by_name else 'never read back'),
                         node=n_, file=fn._mod.rel)
            if verdict == 'VIOLATION':
                bad12.append(n_)
                ctx.violation(R12, fn._mod.rel, n_, Model.qual(fn),
                              '`%s` records per-member data under the member name on the generator object, inside a method that is entered again for a nested type before the entry is read: '
                              'a member of an inline nested SEQUENCE with the same name overwrites it, and the code generated for the outer member uses the inner member\'s variable '
                              '(the generated decoder tests the wrong presence flag)' % norm_stmt(n_), stmt='per-member map on the generator')
    if not reentrant:
        raise AnalysisError('%s: no re-entrant generator method found (the call graph of the generator was not resolved)' % R12)
    ctx.instance(R12, '%d re-entrant methods (%s ...), %d keyed stores on the generator object examined' % (len(reentrant), ', '.join(sorted(reentrant))[:80], n12), 'ok' if not bad12 else 'VIOLATION',
                 nontrivial=True)


def check(ctx):
    ctx.rule('C09.R1', 'C helpers: every buffer access inside a checked allocation; cursor ownership; local arrays; loop shape')
    ctx.rule('C09.R2', 'generator: bounds check on checker.maximum emitted before every run-time-length access; array sizes')
    ctx.rule('C09.R3', 'generator: encode/decode template pairing per format_*_inner (branch)')
    ctx.rule('C09.R4', 'helper registry closed and ordered callee-after-caller')
    ctx.rule('C09.R5', 'reject, do not mis-translate: dispatch chains agree; no empty translation; else raises')
    ctx.rule('C09.R6', 'range errors raised before a width is chosen')
    ctx.rule('C09.R7', 'the C integer type chosen for [minimum, maximum] holds both ends (cell enumeration)')
    ctx.rule('C09.R8', 'loop counter / decoded length type holds checker.maximum')
    helper_rules(ctx, 'C09', FUN, 1)
    arithmetic_rules(ctx, 'C09', FUN, 1)
    generator_rules(ctx, 'C09', GEN, FUN, 'uper')


MUTANTS = [
    dict(name='encoder_append_bytes writes buf_p[byte_pos + i + 2]', file=FUN, quick=True,
         old="            self_p->buf_p[byte_pos + i + 1] = (buf_p[i] << (8u - pos_in_byte));", new="            self_p->buf_p[byte_pos + i + 2] = (buf_p[i] << (8u - pos_in_byte));", expect='C09.R1'),
    dict(name='encoder_append_bytes drops its pos < 0 check', file=FUN, quick=True,
         old="""    pos = encoder_alloc(self_p, 8u * size);

    if (pos < 0) {
        return;
    }

    byte_pos = ((size_t)pos / 8u);""", new="""    pos = encoder_alloc(self_p, 8u * size);

    byte_pos = ((size_t)pos / 8u);""", expect='C09.R1'),
    dict(name='octet string EBADLENGTH block deleted', file=GEN, quick=True,
         old="""            if not does_bits_match_range(type_.number_of_bits,
                                         checker.minimum,
                                         checker.maximum):
                decode_lines += [
                    '',
                    'if (dst_p->{}length > {}u) {{'.format(location, checker.maximum),
                    '    decoder_abort(decoder_p, EBADLENGTH);',
                    '',
                    '    return;',
                    '}',
                    ''
                ]

            decode_lines += [
                'decoder_read_bytes(decoder_p,',""", new="""            decode_lines += [
                'decoder_read_bytes(decoder_p,',""", expect='C09.R2'),
    dict(name='registry: alloc listed before its caller', file=FUN,
         edits=[dict(file=FUN, old="    ('encoder_append_bit(', ENCODER_APPEND_BIT),\n    ('encoder_alloc(', ENCODER_ALLOC),", new="    ('encoder_alloc(', ENCODER_ALLOC),\n    ('encoder_append_bit(', ENCODER_APPEND_BIT),")],
         expect='C09.R4'),
    dict(name='integer decode reads with another helper', file=GEN,
         old="""                    'dst_p->{} = decoder_read_{}(decoder_p);'.format(location,
                                                                     suffix)""",
         new="""                    'dst_p->{} = decoder_read_uint8(decoder_p);'.format(location)""", expect='C09.R3'),
    dict(name='sequence-of counter typed for maximum - 1', file=GEN,
         old="        type_name = self.format_type_name(0, checker.maximum)\n        unique_i = self.add_unique_variable('{} {{}};'.format(type_name),\n                                            'i')",
         new="        type_name = self.format_type_name(0, checker.maximum - 1)\n        unique_i = self.add_unique_variable('{} {{}};'.format(type_name),\n                                            'i')", expect='C09.R8'),
    dict(name='alloc compares with < instead of <=... and skips abort', file=FUN,
         old="""        pos = -ENOMEM;
        encoder_abort(self_p, ENOMEM);""", new="""        pos = self_p->pos;""", expect='C09.R1'),
    dict(name='unsigned 16-bit threshold moved', file=UTIL, old="        elif maximum > 255:\n            maximum_length = 16", new="        elif maximum > 511:\n            maximum_length = 16", expect='C09.R7'),
]
REFACTORS = []

MUTANTS.append(dict(name='uper decoder_read_uint16 assembles the octets in the wrong order', file='asn1tools/source/c/uper_functions.py',
                    old="    return (((uint16_t)buf[0] << 8) | (uint16_t)buf[1]);", new="    return (((uint16_t)buf[1] << 8) | (uint16_t)buf[0]);", expect='C09.R10'))
MUTANTS.append(dict(name='uper encoder_append_int16 uses the offset of the 8-bit type', file='asn1tools/source/c/uper_functions.py',
                    old="    encoder_append_uint16(self_p, (uint16_t)value + 32768);", new="    encoder_append_uint16(self_p, (uint16_t)value + 128);", expect='C09.R10'))
