"""C11 -- check_constraints accepts exactly what the constraints admit (plumbing; DESIGN.md section 4 C11)."""
import ast
import re

from ..model import AnalysisError, Model, walk_no_nested, norm_stmt, names_in
from .. import flow, dispatch, copyrule, sem

EXPLANATION = (
    'Decided: (R1) every checker class that receives a range calls is_in_range in encode and raises ConstraintsError on the false branch; '
    'String also tests the permitted alphabet; Dict/List/Choice/Recursive recurse into every child; is_in_range compares with >= / <= against '
    'self.minimum / self.maximum and treats MIN/MAX as unbounded; (R2) the checker dispatch passes *get_size_range() to exactly the '
    'size-constrainable kinds and get_permitted_alphabet() to every string kind, and applies restricted-to in the tail; (R3) '
    'Specification.encode/decode/decode_with_length each pass through check_constraints under `if check_constraints` before the value is '
    'encoded / after it is decoded (must-pass-through); (R4) an extension marker leaves the type unconstrained; (R8) set_range / is_in_range evaluated on boundary '
    'values admit exactly the effective range, for fresh types and for subtypes (MIN / MAX = the bounds of the parent) of constrained parents; (R5) bounds are resolved only '
    'through Compiler.get_size_range/get_restricted_to_range (value references, named numbers); (R6) every constraint key consumed on the '
    'inline path is also consumed for type references; (R7) a compiled object is configured only when owned (copy discipline).  '
    'Not decided: the iff for all values; REAL/ENUMERATED constraints (ignored by design).')
CC = 'asn1tools/codecs/constraints_checker.py'
COMP = 'asn1tools/compiler.py'
BASE = 'asn1tools/codecs/compiler.py'
SIZE_KINDS = {'SEQUENCE OF', 'SET OF', 'OCTET STRING', 'BIT STRING'}


def containers_recurse(model, rel):
    """For the container classes of a checker module (Dict, List, Choice, Recursive): does encode -- or a helper of the object it calls -- hand every
    child to the child's encode, for Dict and List inside a loop over the whole collection (self.members / the data)?  -> [(class name, collection, encode, ok)]"""
    from .. import defaults
    out = []
    for cn, coll, recv in (('Dict', 'self.members', None), ('List', 'DATA', 'self.element_type'), ('Choice', None, None), ('Recursive', None, None)):
        ccls = model.cls(rel, cn)
        f = ccls.find_method('encode')[1]
        # encode and the methods of the object it reaches through self
        reach = [f]
        for g_ in reach:
            for c_ in walk_no_nested(g_):
                if isinstance(c_, ast.Call) and isinstance(c_.func, ast.Attribute) and isinstance(c_.func.value, ast.Name) and c_.func.value.id == 'self':
                    r_ = ccls.find_method(c_.func.attr)
                    if r_ and r_[1] not in reach and len(reach) < 8:
                        reach.append(r_[1])
        es = defaults.EncodeSites(ccls)
        ok = False
        for g_, node, r_, _why, _how, _conds in es.sites:
            if g_ not in reach:
                continue
            if recv is not None and r_ != recv:
                continue
            if coll is None:
                ok = True
                continue
            dparam = flow.param_names(g_)[1] if len(flow.param_names(g_)) > 1 else None
            want_iter = dparam if coll == 'DATA' else coll
            for anc in flow.ancestors(node):
                if isinstance(anc, (ast.For, ast.comprehension)) and ast.unparse(anc.iter) == want_iter:
                    ok = True
                if isinstance(anc, (ast.ListComp, ast.GeneratorExp, ast.SetComp)) and any(ast.unparse(g2.iter) == want_iter for g2 in anc.generators):
                    ok = True
        # ... and on every path on which the check of the container ends without an error: a return before the loop that depends on the configuration of the
        # object (a flag computed when compiling) skips the children of some types for good
        if ok and coll is not None:
            ps_ = sem.paths(f, positional=True, resolver=sem.class_resolver(ccls))
            if ps_ is not None:
                want_ = 'ARG0' if coll == 'DATA' else coll
                for p_ in ps_:
                    if p_.outcome[0] != 'return':
                        continue
                    looped = any(ev[0] in ('loop', 'in-loop:loop') and ev[1] == want_ for ev in p_.events)
                    if looped:
                        continue
                    on_data = any(re.search(r'\bARG0\b', c_[0]) for c_ in p_.conds)
                    if not on_data:
                        ok = False
        out.append((cn, coll, f, ok))
    return out


def check(ctx):
    model = ctx.model
    cc = model.mod(CC)
    ctx.rule('C11.R1', 'ranged checker classes call is_in_range and raise ConstraintsError; containers recurse; is_in_range operators')
    ctx.rule('C11.R2', 'checker dispatch passes size range / permitted alphabet to exactly the constrainable kinds; restricted-to in the tail')
    ctx.rule('C11.R3', 'check_constraints is passed through on encode (before) and decode/decode_with_length (after) under the flag')
    ctx.rule('C11.R4', 'extensible => unconstrained: set_range returns before assigning when has_extension_marker')
    ctx.rule('C11.R5', 'bounds resolved only through the shared get_size_range / get_restricted_to_range')
    ctx.rule('C11.R6', 'every constraint key consumed inline is also consumed on the reference path (compile_type tail)')
    ctx.rule('C11.R7', 'copy discipline in the checker compiler: configure only owned objects')

    typ = model.cls(CC, 'Type')
    # ---- R1
    ranged = []
    for c in cc.classes.values():
        if typ not in c.mro() or c is typ:
            continue
        init = c.find_method('__init__')
        sets = False
        hops = 0
        while init and not sets and hops < 5:
            hops += 1
            nxt = None
            for n in walk_no_nested(init[1]):
                if isinstance(n, ast.Call) and isinstance(n.func, ast.Attribute) and n.func.attr in ('set_size_range', 'set_range', 'set_restricted_to_range') \
                        and isinstance(n.func.value, ast.Name) and n.func.value.id == 'self':
                    sets = True
                # super().__init__(..) / Base.__init__(self, ..): the range may be set by a base-class constructor
                if isinstance(n, ast.Call) and isinstance(n.func, ast.Attribute) and n.func.attr == '__init__':
                    nxt = c.find_method('__init__', after=init[0])
            init = nxt
        if sets or c.name == 'Integer':
            ranged.append(c)
    measure = {'String': 'len(ARG0)', 'Bytes': 'len(ARG0)', 'List': 'len(ARG0)', 'BitString': 'ARG0[1]', 'Integer': 'ARG0'}
    for c in ranged:
        enc = c.find_method('encode')
        f = enc[1] if enc else None
        ps = sem.paths(f, positional=True, resolver=sem.class_resolver(c, keep=('is_in_range',))) if f is not None else None
        if f is None or ps is None:
            ctx.instance('C11.R1', '%s.encode checks is_in_range' % c.qname, 'VIOLATION' if f is None else 'undecided', nontrivial=False, node=f or c.node, file=CC)
            if f is None:
                ctx.violation('C11.R1', CC, c.node, c.qname + '.encode', 'checker class %s receives a range but has no encode' % c.name, stmt='is_in_range test')
            continue
        # every way out of encode other than raising ConstraintsError has established self.is_in_range(<measured value>)
        lit_re = re.compile(r'^self\.is_in_range\((.*)\)$')
        ok = True
        measured = set()
        n_exit = 0
        for p in ps:
            in_lits = [(c_[0], c_[1]) for c_ in p.conds if lit_re.match(c_[0])]
            for t_, pol_ in in_lits:
                measured.add(lit_re.match(t_).group(1))
            if p.outcome[0] == 'raise':
                continue
            n_exit += 1
            if not any(pol_ for _t, pol_ in in_lits):
                ok = False
        for p in ps:
            if any(lit_re.match(c_[0]) and not c_[1] for c_ in p.conds) and p.outcome[0] != 'raise':
                ok = False
        ok = ok and n_exit >= 1
        ctx.instance('C11.R1', '%s.encode checks is_in_range(%s)' % (c.qname, ', '.join(sorted(measured))), 'ok' if ok else 'VIOLATION', node=f, file=CC)
        if not ok:
            ctx.violation('C11.R1', CC, f, c.qname + '.encode',
                          'checker class %s receives a range but its encode does not unconditionally test self.is_in_range(...) and raise ConstraintsError' % c.name,
                          stmt='is_in_range test')
        # what is measured: len(data) for String/Bytes/List, data[1] for BitString, data for Integer
        if c.name in measure:
            want = measure[c.name]
            okm = measured == {want}
            ctx.instance('C11.R1', '%s measures %s' % (c.qname, sorted(measured)), 'ok' if okm else 'VIOLATION', node=f, file=CC)
            if not okm:
                ctx.violation('C11.R1', CC, f, c.qname + '.encode', '%s must compare %s with its range, but compares %s' % (c.name, want.replace('ARG0', 'data'), sorted(measured)), stmt='measured quantity')
    if len(ranged) < 6:
        raise AnalysisError('C11.R1: only %d ranged checker classes found' % len(ranged))
    # alphabet: every character of the data is tested for membership, a character outside raises -- in encode itself or in a
    # method of the class that encode hands its data to
    scls = model.cls(CC, 'String')
    f = scls.find_method('encode')[1]
    sres = sem.class_resolver(scls)

    def raises_constraints_error(p_, cls_):
        if p_.outcome[0] != 'raise':
            return False
        if p_.outcome[1] == 'ConstraintsError':
            return True
        r_ = cls_.find_method(p_.outcome[1]) or (None, cls_.mod.functions.get(p_.outcome[1]))
        g_ = r_[1] if r_ else None
        return g_ is not None and any(isinstance(x_, ast.Return) and x_.value is not None and 'ConstraintsError' in ast.unparse(x_.value) for x_ in walk_no_nested(g_))
    cands = [(f, 'ARG0')]
    for p in (sem.paths(f, positional=True) or []):
        for ev in p.events:
            if ev[0] == 'call' and len(ev) > 3 and isinstance(ev[3].func, ast.Attribute) and sem.ctext(ev[3].func.value) == 'self':
                g_ = sres(ev[2])
                if g_ is not None and g_ is not f and not any(g_ is x for x, _ in cands):
                    for i_, a_ in enumerate(ev[3].args):
                        if sem.ctext(a_) == 'ARG0':
                            cands.append((g_, 'ARG%d' % i_))
    ok = loops_ok = False
    for g_, dparam in cands:
        gps = sem.paths(g_, positional=True) or []
        body = [p for p in sem.with_loop_bodies(gps)]
        if any(raises_constraints_error(p, scls) and any(c_[0].endswith(' in self.permitted_alphabet') and '@' in c_[0] and not c_[1] for c_ in p.conds) for p in body):
            ok = True
            loops_ok = loops_ok or any(ev[0] == 'loop' and ev[1] == dparam for p in gps for ev in p.events)
    ctx.instance('C11.R1', 'String.encode tests every character against permitted_alphabet', 'ok' if ok else 'VIOLATION', node=f, file=CC)
    if not ok:
        ctx.violation('C11.R1', CC, f, 'constraints_checker.String.encode', 'permitted-alphabet membership test missing', stmt='alphabet test')
    ok = loops_ok
    ctx.instance('C11.R1', 'String.encode iterates over all characters', 'ok' if ok else 'VIOLATION', node=f, file=CC)
    if not ok:
        ctx.violation('C11.R1', CC, f, 'constraints_checker.String.encode', 'the alphabet test does not visit every character of data', stmt='alphabet loop')
    # ... and no value gets past the loop untested: a returning path that does not run the loop is the path of an absent alphabet, of empty data -- or a shortcut whose test
    # must be as strict as the loop.  A regular expression used for that must match the *whole* string: `$` also matches before a trailing line feed.
    for g_, dparam in cands:
        gps = sem.paths(g_, positional=True) or []
        if not any(ev[0] == 'loop' and ev[1] == dparam for p in gps for ev in p.events):
            continue
        for p in gps:
            if p.outcome[0] != 'return' or any(ev[0] == 'loop' and ev[1] == dparam for ev in p.events):
                continue
            lits_ = [(c_[0], c_[1]) for c_ in p.conds]
            if any((t_ in ('self.permitted_alphabet is None',) and pol_) or (t_ in ('self.permitted_alphabet', 'self.permitted_alphabet is not None') and not pol_) for t_, pol_ in lits_):
                continue
            if any((t_ in (dparam, 'len(%s)' % dparam) and not pol_) or (re.match(r'^len\(%s\)( -0)? == 0$' % dparam, t_) and pol_) for t_, pol_ in lits_):
                continue
            rx = [t_ for t_, pol_ in lits_ if pol_ and re.search(r'\.(match|fullmatch|search)\(', t_)]
            verdict, why = 'undecided', 'a path returns without running the alphabet loop under [%s]' % '; '.join(('' if pol_ else 'not ') + t_ for t_, pol_ in lits_)[:160]
            if rx:
                # the patterns compiled in the checker and the alphabet module
                pats_ = []
                for rel_ in (CC, 'asn1tools/codecs/permitted_alphabet.py'):
                    for x_ in ast.walk(model.mod(rel_).tree):
                        if isinstance(x_, ast.Call) and ast.unparse(x_.func) in ('re.compile', 'compile') and x_.args:
                            consts_ = [k_.value for k_ in ast.walk(x_.args[0]) if isinstance(k_, ast.Constant) and isinstance(k_.value, str)]
                            pats_.append((x_, consts_))
                uses_full = all('.fullmatch(' in t_ for t_ in rx)
                dollar = [x_ for x_, cs_ in pats_ if any(c_.endswith('$') and not c_.endswith('\\$') for c_ in cs_)]
                if dollar and not uses_full:
                    verdict, why = 'VIOLATION', ('the shortcut `%s` accepts the string when the pattern compiled at %s:%d matches, and that pattern ends with `$`: `$` also matches just '
                                                 'before a trailing line feed, so a string whose last character is a line feed outside the permitted alphabet passes unchecked'
                                                 % (rx[0][:80], Model.qual(Model.enclosing_function(dollar[0])).split('::')[0] if Model.enclosing_function(dollar[0]) is not None else CC, dollar[0].lineno))
                elif pats_ and (uses_full or all(any(c_.endswith('\\Z') for c_ in cs_) for _x, cs_ in pats_)):
                    verdict, why = 'ok', 'whole-string regular expression'
            ctx.instance('C11.R1', '%s: path past the alphabet loop' % Model.qual(g_), verdict, why if verdict != 'ok' else '', nontrivial=verdict != 'undecided', node=g_, file=CC)
            if verdict == 'VIOLATION':
                ctx.violation('C11.R1', CC, p.outcome[2] if len(p.outcome) > 2 and hasattr(p.outcome[2], 'lineno') else g_, Model.qual(g_), why, stmt='alphabet shortcut')
            elif verdict == 'undecided':
                ctx.note('C11.R1 undecided: ' + why)
    # containers recurse: the child's encode is called (directly or through a helper that is handed the child) -- for Dict and List inside
    # a loop over the collection
    for cn, coll, f, ok in containers_recurse(model, CC):
        ctx.instance('C11.R1', '%s.encode recurses into its children' % cn, 'ok' if ok else 'VIOLATION', node=f, file=CC)
        if not ok:
            ctx.violation('C11.R1', CC, f, 'constraints_checker.%s.encode' % cn, 'container does not check every child (encode over %s)' % (coll or 'the selected member'), stmt='recursion')
    # is_in_range: (no lower bound or v >= min) and (no upper bound or v <= max), as a set of satisfying cases
    f = typ.methods['is_in_range']

    def truth_cases(fn):
        """DNF (set of frozensets of literals) of the conditions under which fn returns a true value; None when not decided"""
        ps_ = sem.paths(fn, positional=True, consts=True)
        if ps_ is None:
            return None
        cases = set()
        for p in ps_:
            if p.outcome[0] != 'return':
                continue
            base_ = frozenset((c_[0], c_[1]) for c_ in p.conds)
            e_ = p.outcome[3]
            if isinstance(e_, ast.Constant):
                if e_.value:
                    cases.add(base_)
                continue
            for conj in sem.dnf(sem.cond_formula(e_)):
                cases.add(base_ | frozenset((l_[0], l_[1]) for l_ in conj))
        return cases

    def lits(*srcs):
        return frozenset(sem.ccond(sem.parse_expr(x)) for x in srcs)
    want = {lits('not self.has_lower_bound()', 'not self.has_upper_bound()'), lits('not self.has_lower_bound()', 'ARG0 <= self.maximum'),
            lits('ARG0 >= self.minimum', 'not self.has_upper_bound()'), lits('ARG0 >= self.minimum', 'ARG0 <= self.maximum')}
    got = truth_cases(f)
    # a case that repeats a literal of a weaker case is subsumed: compare the minimal cases
    def minimal(cs):
        return {c_ for c_ in cs if not any(o_ < c_ for o_ in cs)}
    ok = got is not None and minimal(got) == want
    # decided by evaluation first (the checker's own evaluator on a grid of bounds and values); the case comparison is the fall-back
    from .. import evalexpr as _ev
    grid_ok, n_grid = True, 0
    vp_ = [x_ for x_ in flow.param_names(f) if x_ != 'self'][0]
    try:
        for lo_ in ('MIN', -5, 0, 3):
            for hi_ in ('MAX', 3, 4, 10):
                for v_ in (-6, -5, -4, -1, 0, 1, 2, 3, 4, 5, 9, 10, 11, 2 ** 70, -2 ** 70):
                    r_, _e = _ev.run_function(f, {vp_: v_, 'self.minimum': lo_, 'self.maximum': hi_})
                    n_grid += 1
                    if bool(r_) != ((lo_ == 'MIN' or v_ >= lo_) and (hi_ == 'MAX' or v_ <= hi_)):
                        grid_ok = False
        ok = grid_ok
        got = got if got is not None else set()
    except (_ev.Unsupported, _ev.Raised):
        n_grid = 0
    ctx.instance('C11.R1', 'is_in_range: (no lower or v >= min) and (no upper or v <= max)%s' % (' [evaluated on %d (bounds, value) cases]' % n_grid if n_grid else ''),
                 'ok' if ok else ('undecided' if got is None else 'VIOLATION'), node=f, file=CC)
    if not ok and got is not None:
        ctx.violation('C11.R1', CC, f, 'constraints_checker.Type.is_in_range', 'bound comparison changed (must be inclusive on both ends and conjunctive)', stmt='is_in_range')
    for nm, const in (('has_lower_bound', 'MIN'), ('has_upper_bound', 'MAX')):
        g = typ.methods[nm]
        got = truth_cases(g)
        want1 = {lits("self.%s != '%s'" % ('minimum' if const == 'MIN' else 'maximum', const))}
        ok = got is not None and minimal(got) == want1
        # evaluation first: the predicate on states with and without the bound
        try:
            attr_ = 'minimum' if const == 'MIN' else 'maximum'
            ev_ok = True
            for lo_ in ('MIN', -5, 0, 3):
                for hi_ in ('MAX', -5, 0, 10):
                    r_, _e = _ev.run_function(g, {'self.minimum': lo_, 'self.maximum': hi_})
                    if bool(r_) != ((lo_ if attr_ == 'minimum' else hi_) != const):
                        ev_ok = False
            ok = ev_ok
        except (_ev.Unsupported, _ev.Raised):
            pass
        ctx.instance('C11.R1', nm, 'ok' if ok else 'VIOLATION', node=g, file=CC)
        if not ok:
            ctx.violation('C11.R1', CC, g, 'constraints_checker.Type.' + nm, "%s must be `self.%s != '%s'`" % (nm, 'minimum' if const == 'MIN' else 'maximum', const), stmt=nm)

    # ---- R2
    tab = dispatch.table(model, 'constraints_checker')
    per_tab = dispatch.table(model, 'per')
    string_kinds = set(cc.const_value('STRING_TYPES'))
    tv = sem.View(tab.func)
    for name, cell in sorted(tab.cells.items()):
        args = ' '.join([tv.text(a_) for a_ in cell.ctor.args] + ['%s=%s' % (k_.arg, tv.text(k_.value)) for k_ in cell.ctor.keywords]) if cell.ctor is not None else ''
        has_size = 'self.get_size_range(' in args
        has_alpha = 'self.get_permitted_alphabet(' in args
        want_size = name in SIZE_KINDS or name in string_kinds
        want_alpha = name in string_kinds
        if name in ('OBJECT IDENTIFIER', 'ObjectDescriptor') and cell.cls is not None and cell.cls.name == 'String':
            want_size = has_size
            want_alpha = has_alpha
        ok = (has_size == want_size) and (has_alpha == want_alpha)
        if want_size or want_alpha or has_size or has_alpha:
            ctx.instance('C11.R2', "checker cell '%s' -> %s(%s)" % (name, cell.cls.name if cell.cls else '?', args[:60]), 'ok' if ok else 'VIOLATION', node=cell.ctor, file=CC)
            if not ok:
                ctx.violation('C11.R2', CC, cell.ctor or tab.func, "constraints_checker.Compiler.compile_type['%s']" % name,
                              "kind '%s': size range passed=%s (expected %s), permitted alphabet passed=%s (expected %s): the declared constraint never reaches the checker"
                              % (name, has_size, want_size, has_alpha, want_alpha), stmt="cell '%s'" % name)
        else:
            ctx.instance('C11.R2', "checker cell '%s'" % name, 'unconstrained kind', nontrivial=False, node=cell.ctor, file=CC)
    tail = ' '.join(ast.unparse(s) for s in tab.tail)
    ok = "'restricted-to' in type_descriptor" in tail and 'set_compiled_restricted_to' in tail
    ctx.instance('C11.R2', 'checker tail applies restricted-to', 'ok' if ok else 'VIOLATION', node=tab.func, file=CC)
    if not ok:
        ctx.violation('C11.R2', CC, tab.func, 'constraints_checker.Compiler.compile_type', "the 'restricted-to' key is no longer applied after the dispatch (value ranges ignored)", stmt='restricted-to tail')
    # the tail condition must not be narrowed by a type test
    for s in tab.tail:
        if isinstance(s, ast.If) and "'restricted-to'" in ast.unparse(s.test):
            ok = sem.ccond(s.test) == ("'restricted-to' in type_descriptor", True)
            ctx.instance('C11.R2', 'restricted-to applied unconditionally for every kind', 'ok' if ok else 'VIOLATION', node=s, file=CC)
            if not ok:
                ctx.violation('C11.R2', CC, s, 'constraints_checker.Compiler.compile_type', 'restricted-to is applied only under an extra condition (%s)' % ast.unparse(s.test), stmt='restricted-to condition')
    # Integer receives its range through set_restricted_to_range -> set_range
    for nm in ('set_size_range', 'set_restricted_to_range'):
        g = typ.methods[nm]
        gps = sem.paths(g, positional=True) or []
        ok = bool(gps) and all(any(t_ == 'self.set_range(ARG0, ARG1, ARG2)' for t_, _n in p.calls('set_range')) for p in gps if p.outcome[0] != 'raise')
        ctx.instance('C11.R2', 'Type.%s -> set_range' % nm, 'ok' if ok else 'VIOLATION', node=g, file=CC)
        if not ok:
            ctx.violation('C11.R2', CC, g, 'constraints_checker.Type.' + nm, '%s no longer forwards (minimum, maximum, has_extension_marker) to set_range' % nm, stmt=nm)

    # ---- R3 must-pass-through
    for qual, mode in (('Specification.encode', 'before'), ('Specification.decode', 'after'), ('Specification.decode_with_length', 'after')):
        f = model.func(COMP, qual)
        params = flow.param_names(f)[1:]
        flag = 'ARG%d' % params.index('check_constraints')
        data = 'ARG%d' % params.index('data')
        ps = sem.paths(f, positional=True)
        if ps is None:
            ctx.instance('C11.R3', Model.qual(f), 'undecided', 'too many paths', nontrivial=False, node=f, file=COMP)
            continue
        ok = True
        why = ''
        n_checked = 0
        codec_names = ('encode',) if mode == 'before' else ('decode', 'decode_with_length')
        for p in ps:
            if p.outcome[0] != 'return':
                continue
            calls = [(i, ev) for i, ev in enumerate(p.events) if ev[0] == 'call']
            chk = [(i, ev) for i, ev in calls if sem.callee_name(ev[2]) == 'check_constraints']
            cod = [(i, ev) for i, ev in calls if sem.callee_name(ev[3]) in codec_names and isinstance(ev[3].func, ast.Attribute) and ev[3].args and sem.ctext(ev[3].args[0]) == data]
            if not cod:
                ok, why = False, 'no codec call on a returning path'
                break
            if not p.has(flag, True):
                if p.has(flag, False):
                    continue
                # the flag is not tested on this path: then the check must be there anyway
            if not chk:
                ok, why = False, 'a return is reachable with check_constraints=True without the value passing check_constraints'
                break
            n_checked += 1
            ci, cev = chk[0]
            ki, kev = cod[0]
            carg = sem.ctext(cev[3].args[0]) if cev[3].args else None
            if mode == 'before':
                karg = sem.ctext(kev[3].args[0]) if kev[3].args else None
                if not (ci < ki and carg == karg == data):
                    ok, why = False, 'the value checked is not the value encoded, or the check comes after the encode'
                    break
            else:
                ktext = kev[1]
                if not (ci > ki and carg in (ktext, ktext + '[0]')):
                    ok, why = False, 'the value checked is not the decoded value'
                    break
                ret = p.outcome[1]
                if not (ktext in ret):
                    ok, why = False, 'the value returned is not the decoded (and checked) value'
                    break
        if ok and n_checked == 0:
            ok, why = False, 'no path passes the value through check_constraints'
        ctx.instance('C11.R3', Model.qual(f), 'passes through check_constraints' if ok else 'VIOLATION', why, node=f, file=COMP)
        if not ok:
            ctx.violation('C11.R3', COMP, f, Model.qual(f), why + ': with check_constraints=True a violating value reaches the wire / the caller unchecked', stmt='must-pass-through')
    # CompiledType.check_constraints dispatches to the constraints checker's encode
    f = model.func(BASE, 'CompiledType.check_constraints')
    cps = sem.paths(f, positional=True) or []
    ok = bool(cps) and all(any(t_ == 'self.constraints_checker.encode(ARG0)' for t_, _n in p.calls('encode')) for p in cps if p.outcome[0] != 'raise')
    ctx.instance('C11.R3', Model.qual(f), 'ok' if ok else 'VIOLATION', node=f, file=BASE)
    if not ok:
        ctx.violation('C11.R3', BASE, f, Model.qual(f), 'check_constraints no longer runs the constraints checker', stmt='dispatch')
    # Specification.__init__ attaches the checker compiled for the same module/type
    f = model.func(COMP, 'Specification.__init__')
    ips = sem.with_loop_bodies(sem.paths(f, positional=True) or [])
    cparam = 'ARG%d' % flow.param_names(f)[1:].index('constraints_checkers')
    ok = False
    for p in ips:
        for ev in p.events:
            if ev[0] == 'store' and '.constraints_checker = ' in ev[1]:
                m_ = re.match(r'^(\S+)\.constraints_checker = %s\[(\w+@\d+)\]\[(\w+@\d+)\]$' % cparam, ev[1])
                ok = bool(m_) and m_.group(2) != m_.group(3)
    ctx.instance('C11.R3', 'Specification.__init__ attaches constraints_checkers[module][type]', 'ok' if ok else 'VIOLATION', node=f, file=COMP)
    if not ok:
        ctx.violation('C11.R3', COMP, f, Model.qual(f), 'the constraints checker attached to a type is not the one compiled for that module and type name', stmt='attach')

    # ---- R4
    f = typ.methods['set_range']
    rps = sem.paths(f, positional=True) or []
    ext = [p for p in rps if p.has('ARG2', True)]
    ok = bool(ext) and all(not any(ev[0] == 'store' for ev in p.events) for p in ext) and any(any(ev[0] == 'store' for ev in p.events) for p in rps if p.has('ARG2', False))
    # no store to self.minimum/maximum before it
    # evaluation first: set_range with the extension marker set leaves the range of the object as it was; without it, it does not (on a state it must change)
    from .. import evalexpr as _ev4
    try:
        sp_ = [p_ for p_ in flow.param_names(f) if p_ != 'self']
        ev_ok = True
        for lo_, hi_ in (('MIN', 'MAX'), (0, 10), (-5, 'MAX')):
            _r, env_ = _ev4.run_function(f, {'self.minimum': lo_, 'self.maximum': hi_, sp_[0]: 2, sp_[1]: 3, sp_[2]: True})
            if (env_.get('self.minimum'), env_.get('self.maximum')) != (lo_, hi_):
                ev_ok = False
            _r, env_ = _ev4.run_function(f, {'self.minimum': lo_, 'self.maximum': hi_, sp_[0]: 2, sp_[1]: 3, sp_[2]: False})
            if (env_.get('self.minimum'), env_.get('self.maximum')) != (2, 3):
                ev_ok = False
        ok = ev_ok
    except (_ev4.Unsupported, _ev4.Raised):
        pass
    ctx.instance('C11.R4', 'Type.set_range returns first when extensible', 'ok' if ok else 'VIOLATION', node=f, file=CC)
    if not ok:
        ctx.violation('C11.R4', CC, f, 'constraints_checker.Type.set_range', 'an extensible constraint must leave the type unconstrained: `if has_extension_marker: return` must be the first statement', stmt='extensible early return')

    # ---- R8: the range a checker object ends up with, by bounded evaluation of Type.__init__ / set_range / is_in_range (sa/evalexpr.py): a fresh type, and a
    #      subtype of an already constrained parent -- the compilers apply the subtype's range to a copy of the parent's object, and MIN / MAX in the subtype
    #      denote the parent's bounds (X.680 51.4), so the admitted values are those of the intersection
    ctx.rule('C11.R8', 'set_range / is_in_range admit exactly the effective range, for a fresh type and for a subtype (with MIN / MAX) of a constrained parent')
    from .. import evalexpr
    f_init, f_sr, f_in = typ.methods['__init__'], typ.methods['set_range'], typ.methods['is_in_range']
    n8 = 0
    bad8 = und8 = None
    CASES8 = [(None, (0, 255)), (None, (5, 'MAX')), (None, ('MIN', 5)), (None, ('MIN', 'MAX')), (None, (None, None)), ((0, 255), (200, 'MAX')), ((0, 255), ('MIN', 100)),
              ((0, 255), (10, 20)), ((5, 'MAX'), ('MIN', 100)), (('MIN', 100), (0, 'MAX')), ((0, 255), ('MIN', 'MAX')), ((-10, 10), (0, 'MAX'))]
    for parent, (lo, hi) in CASES8:
        try:
            _r, env = evalexpr.run_function(f_init, {flow.param_names(f_init)[1]: 'x'}, skip_calls=True)
            sp = flow.param_names(f_sr)[1:]
            for rng in ([parent] if parent else []) + [(lo, hi)]:
                env = {k: v_ for k, v_ in env.items() if isinstance(k, str) and k.startswith('self.')}
                env.update(dict(zip(sp, (rng[0], rng[1], False))))
                _r, env = evalexpr.run_function(f_sr, env)
            cfg = {k: v_ for k, v_ in env.items() if isinstance(k, str) and k.startswith('self.')}
            elo = (parent[0] if parent else 'MIN') if lo in ('MIN', None) else lo
            ehi = (parent[1] if parent else 'MAX') if hi in ('MAX', None) else hi
            probes = set()
            for b in (elo, ehi, parent[0] if parent else 0, parent[1] if parent else 0):
                if isinstance(b, int):
                    probes.update({b - 1, b, b + 1})
            probes.update({-10 ** 6, 0, 10 ** 6})
            for v in sorted(probes):
                e2 = dict(cfg)
                e2[flow.param_names(f_in)[1]] = v
                got, _e = evalexpr.run_function(f_in, e2)
                want = (elo == 'MIN' or v >= elo) and (ehi == 'MAX' or v <= ehi)
                n8 += 1
                if bool(got) != want and bad8 is None:
                    what = ('(%s..%s)' % (lo, hi)) if parent is None else 'A ::= (%s..%s), B ::= A (%s..%s): for B' % (parent[0], parent[1], lo, hi)
                    bad8 = '%s the value %d is %s, the constraint %s it (effective range %s..%s)' % (what, v, 'admitted' if got else 'rejected', 'excludes' if not want else 'admits', elo, ehi)
        except (evalexpr.Unsupported, KeyError, TypeError) as e:
            und8 = und8 or '%s / %s: %s' % (parent, (lo, hi), e)
    ctx.instance('C11.R8', 'Type.set_range / is_in_range: %d (range, value) cases evaluated' % n8, 'VIOLATION' if bad8 else ('ok' if n8 else 'undecided'), und8 or '', nontrivial=n8 > 0, node=f_sr, file=CC)
    if bad8:
        ctx.violation('C11.R8', CC, f_sr, 'constraints_checker.Type.set_range', bad8, stmt='effective range')

    # ---- R5: no private bound resolution in the checker (no type_descriptor['size'] / ['restricted-to'] subscripts outside the base helpers)
    n5 = 0
    for g in [n for n in ast.walk(cc.tree) if isinstance(n, ast.FunctionDef)]:
        for n in walk_no_nested(g):
            if isinstance(n, ast.Subscript) and isinstance(n.slice, ast.Constant) and n.slice.value in ('size', 'restricted-to'):
                n5 += 1
                ctx.violation('C11.R5', CC, n, Model.qual(g), "constraints checker reads the '%s' descriptor key itself instead of the shared get_size_range/get_restricted_to_range "
                              '(value references and named numbers would not be resolved)' % n.slice.value)
    base = model.mod(BASE)
    for nm in ('get_size_range', 'get_restricted_to_range'):
        g = model.func(BASE, 'Compiler.' + nm)
        fam = flow.local_reach(model, g, limit=2)      # the function and the helpers a refactoring may have extracted from it
        ok = any(isinstance(n_, ast.Call) and sem.callee_name(n_) == 'lookup_value' for g2 in fam for n_ in ast.walk(g2)) and \
            any(isinstance(n_, ast.Compare) and isinstance(n_.ops[0], (ast.In, ast.NotIn)) and 'EXTENSION_MARKER' in names_in(n_.left) for g2 in fam for n_ in ast.walk(g2))
        ctx.instance('C11.R5', 'base Compiler.%s resolves value references and reports the extension marker' % nm, 'ok' if ok else 'VIOLATION', node=g, file=BASE)
        if not ok:
            ctx.violation('C11.R5', BASE, g, Model.qual(g), '%s no longer resolves value references / the extension marker' % nm, stmt=nm)
    g = model.func(BASE, 'Compiler.get_restricted_to_range')
    ok = any("['named-numbers']" in ast.unparse(g2) for g2 in flow.local_reach(model, g, limit=2))
    ctx.instance('C11.R5', 'get_restricted_to_range resolves named numbers', 'ok' if ok else 'VIOLATION', node=g, file=BASE)
    if not ok:
        ctx.violation('C11.R5', BASE, g, Model.qual(g), 'named-number bounds are no longer resolved', stmt='named numbers')

    # ---- R6 descriptor-key coverage on the reference path
    inline_keys = set()
    for cell in tab.cells.values():
        for s in cell.body:
            src = ast.unparse(s)
            if 'get_size_range(' in src:
                inline_keys.add('size')
            if 'get_permitted_alphabet(' in src:
                inline_keys.add('from')
    if "'restricted-to'" in tail:
        inline_keys.add('restricted-to')
    tail_keys = set()
    for s in tab.tail:
        for n in ast.walk(s):
            if isinstance(n, ast.Constant) and n.value in ('size', 'from', 'restricted-to'):
                tail_keys.add(n.value)
    cm = model.func(BASE, 'Compiler.compile_member')
    member_keys = {n.value for n in ast.walk(cm) if isinstance(n, ast.Constant) and n.value in ('size', 'from', 'restricted-to')}
    for k in sorted(inline_keys):
        ok = k in tail_keys
        where = 'compile_type tail' if ok else ('only compile_member' if k in member_keys else 'nowhere')
        ctx.instance('C11.R6', "constraint key '%s' on the reference path: %s" % (k, where), 'ok' if ok else 'VIOLATION', node=tab.func, file=CC)
        if not ok:
            ctx.violation('C11.R6', CC, tab.func, "constraints_checker.Compiler.compile_type::reference-path key '%s'" % k,
                          "the '%s' constraint is consumed for inline types but, for a type reference, %s: `T ::= OCTET STRING  U ::= T (%s ...)` is unconstrained "
                          'while the inline spelling is constrained' % (k, 'only inside compile_member (not for a top-level reference or a SEQUENCE OF element)' if k in member_keys else 'never',
                                                                       'SIZE' if k == 'size' else 'FROM'), stmt="key '%s' not in tail" % k)

    # ---- R7 copy discipline in the checker compiler + base
    n7 = 0
    for f, node, var, what, owned, why in copyrule.sites(model, [CC, BASE]):
        n7 += 1
        ctx.instance('C11.R7', '%s %s' % (Model.qual(f), what), 'owned' if owned else 'VIOLATION', why, node=node, file=f._mod.rel)
        if not owned:
            ctx.violation('C11.R7', f._mod.rel, node, Model.qual(f),
                          '%s configures an object that may be the cached, shared instance of a named type (%s): the constraint leaks to every other reference of that type'
                          % (what, why), stmt=norm_stmt(Model.enclosing_stmt(node)))
    ctx.floor('C11.R7', 4)
    ctx.floor('C11.R3', 5)


MUTANTS = [
    dict(name='decode_with_length skips check_constraints', file=COMP, quick=True,
         old="""        decoded, length = type_.decode_with_length(data)

        if check_constraints:
            type_.check_constraints(decoded)
""", new="""        decoded, length = type_.decode_with_length(data)
""", expect='C11.R3'),
    dict(name='Bytes no longer receives its size range', file=CC, quick=True,
         old="""            compiled = Bytes(name,
                             *self.get_size_range(type_descriptor,
                                                  module_name))""",
         new="""            compiled = Bytes(name, None, None, None)""", expect='C11.R2'),
    dict(name='lower bound exclusive', file=CC, quick=True,
         old="(value >= self.minimum)", new="(value > self.minimum)", expect='C11.R1'),
    dict(name='set_range assigns before the extension test', file=CC,
         old="""        if has_extension_marker:
            return

        if minimum is None:
            minimum = 'MIN'

        if maximum is None:
            maximum = 'MAX'

        self.minimum = minimum
        self.maximum = maximum""",
         new="""        if minimum is None:
            minimum = 'MIN'

        if maximum is None:
            maximum = 'MAX'

        self.minimum = minimum
        self.maximum = maximum

        if has_extension_marker:
            return""", expect='C11.R4'),
    dict(name='restricted-to only for Integer without copy', file=CC,
         old="""        if 'restricted-to' in type_descriptor:
            compiled = self.set_compiled_restricted_to(compiled,
                                                       type_descriptor,
                                                       module_name)
""", new="""        if 'restricted-to' in type_descriptor and isinstance(compiled, Integer):
            compiled.set_restricted_to_range(
                *self.get_restricted_to_range(type_descriptor,
                                              module_name))
""", expect=['C11.R2', 'C11.R7']),
    dict(name='List checks size only when non-empty', file=CC,
         old="""        length = len(data)

        if not self.is_in_range(length):
            raise ConstraintsError(
                'Expected a list of between""",
         new="""        length = len(data)

        if length and not self.is_in_range(length):
            raise ConstraintsError(
                'Expected a list of between""", expect='C11.R1'),
    dict(name='encode checks after encoding', file=COMP,
         old="""        if check_constraints:
            type_.check_constraints(data)

        return bytes(type_.encode(data, **kwargs))""",
         new="""        encoded = bytes(type_.encode(data, **kwargs))

        if check_constraints and not encoded:
            type_.check_constraints(data)

        return encoded""", expect='C11.R3'),
]
REFACTORS = [
    dict(name='compile_member copies via local helper name', file=BASE, quick=True,
         old="""        if 'optional' in member:
            compiled_member = self.copy(compiled_member)
            compiled_member.optional = member['optional']""",
         new="""        if 'optional' in member:
            compiled_member = self.copy(compiled_member)
            is_optional = member['optional']
            compiled_member.optional = is_optional"""),
]
