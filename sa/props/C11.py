"""C11 -- check_constraints accepts exactly what the constraints admit (plumbing; DESIGN.md section 4 C11)."""
import ast

from ..model import AnalysisError, Model, walk_no_nested, norm_stmt, names_in
from .. import flow, dispatch, copyrule

EXPLANATION = (
    'Decided: (R1) every checker class that receives a range calls is_in_range in encode and raises ConstraintsError on the false branch; '
    'String also tests the permitted alphabet; Dict/List/Choice/Recursive recurse into every child; is_in_range compares with >= / <= against '
    'self.minimum / self.maximum and treats MIN/MAX as unbounded; (R2) the checker dispatch passes *get_size_range() to exactly the '
    'size-constrainable kinds and get_permitted_alphabet() to every string kind, and applies restricted-to in the tail; (R3) '
    'Specification.encode/decode/decode_with_length each pass through check_constraints under `if check_constraints` before the value is '
    'encoded / after it is decoded (must-pass-through); (R4) an extension marker leaves the type unconstrained; (R5) bounds are resolved only '
    'through Compiler.get_size_range/get_restricted_to_range (value references, named numbers); (R6) every constraint key consumed on the '
    'inline path is also consumed for type references; (R7) a compiled object is configured only when owned (copy discipline).  '
    'Not decided: the iff for all values; REAL/ENUMERATED constraints (ignored by design).')
CC = 'asn1tools/codecs/constraints_checker.py'
COMP = 'asn1tools/compiler.py'
BASE = 'asn1tools/codecs/compiler.py'
SIZE_KINDS = {'SEQUENCE OF', 'SET OF', 'OCTET STRING', 'BIT STRING'}


def check(ctx):
    model = ctx.model
    cc = model.mod(CC)
    ctx.rule('C11.R1', 'ranged checker classes call is_in_range and raise ConstraintsError; containers recurse; is_in_range operators')
    ctx.rule('C11.R2', 'checker dispatch passes size range / permitted alphabet to exactly the constrainable kinds; restricted-to in the tail')
    ctx.rule('C11.R3', 'check_constraints is passed through on encode (before) and decode/decode_with_length (after) under the flag')
    ctx.rule('C11.R4', 'extensible => unconstrained: set_range returns before assigning when has_extension_marker')
    ctx.rule('C11.R5', 'bounds resolved only through the shared get_size_range / get_restricted_to_range')
    ctx.rule('C11.R6', 'every constraint key consumed inline is also consumed on the reference path (compile_type tail)')
    ctx.rule('C11.R7', 'copy discipline in the checker compiler: configure only owned objects')

    typ = model.cls(CC, 'Type')
    # ---- R1
    ranged = []
    for c in cc.classes.values():
        if typ not in c.mro() or c is typ:
            continue
        init = c.find_method('__init__')
        sets = False
        if init:
            for n in walk_no_nested(init[1]):
                if isinstance(n, ast.Call) and isinstance(n.func, ast.Attribute) and n.func.attr in ('set_size_range', 'set_range', 'set_restricted_to_range') \
                        and isinstance(n.func.value, ast.Name) and n.func.value.id == 'self':
                    sets = True
        if sets or c.name == 'Integer':
            ranged.append(c)
    for c in ranged:
        enc = c.find_method('encode')
        f = enc[1] if enc else None
        ok = False
        if f is not None:
            for n in walk_no_nested(f):
                if isinstance(n, ast.If) and isinstance(n.test, ast.UnaryOp) and isinstance(n.test.op, ast.Not) \
                        and isinstance(n.test.operand, ast.Call) and ast.unparse(n.test.operand.func) == 'self.is_in_range' \
                        and any(isinstance(r, ast.Raise) and r.exc is not None and 'ConstraintsError' in ast.unparse(r.exc) for r in n.body) \
                        and getattr(n, '_parent', None) is f:
                    ok = True
        ctx.instance('C11.R1', '%s.encode checks is_in_range' % c.qname, 'ok' if ok else 'VIOLATION', node=f or c.node, file=CC)
        if not ok:
            ctx.violation('C11.R1', CC, f or c.node, c.qname + '.encode',
                          'checker class %s receives a range but its encode does not unconditionally test self.is_in_range(...) and raise ConstraintsError' % c.name,
                          stmt='is_in_range test')
    if len(ranged) < 9:
        raise AnalysisError('C11.R1: only %d ranged checker classes found' % len(ranged))
    # what is measured: len(data) for String/Bytes/List, data[1] for BitString, data for Integer
    measure = {'String': 'len(data)', 'Bytes': 'len(data)', 'List': 'len(data)', 'BitString': 'data[1]', 'Integer': 'data'}
    for cn, want in measure.items():
        c = model.cls(CC, cn)
        f = c.methods['encode']
        call = [n for n in walk_no_nested(f) if isinstance(n, ast.Call) and ast.unparse(n.func) == 'self.is_in_range']
        got = None
        if call:
            a = call[0].args[0]
            got = ast.unparse(a)
            if isinstance(a, ast.Name):
                b = [x.value for x in walk_no_nested(f) if isinstance(x, ast.Assign) and isinstance(x.targets[0], ast.Name) and x.targets[0].id == a.id]
                if len(b) == 1:
                    got = ast.unparse(b[0])
        ok = got == want
        ctx.instance('C11.R1', '%s measures %s' % (c.qname, got), 'ok' if ok else 'VIOLATION', node=f, file=CC)
        if not ok:
            ctx.violation('C11.R1', CC, f, c.qname + '.encode', '%s must compare %s with its range, but compares %s' % (cn, want, got), stmt='measured quantity')
    # alphabet
    f = model.cls(CC, 'String').methods['encode']
    ok = any(isinstance(n, ast.If) and isinstance(n.test, ast.Compare) and isinstance(n.test.ops[0], ast.NotIn)
             and ast.unparse(n.test.comparators[0]) == 'self.permitted_alphabet'
             and any(isinstance(r, ast.Raise) and 'ConstraintsError' in ast.unparse(r) for r in n.body) for n in walk_no_nested(f))
    ctx.instance('C11.R1', 'String.encode tests every character against permitted_alphabet', 'ok' if ok else 'VIOLATION', node=f, file=CC)
    if not ok:
        ctx.violation('C11.R1', CC, f, 'constraints_checker.String.encode', 'permitted-alphabet membership test missing', stmt='alphabet test')
    # the alphabet loop iterates over the data itself
    loops_ = [n for n in walk_no_nested(f) if isinstance(n, ast.For)]
    ok = any(ast.unparse(l.iter) == 'data' for l in loops_)
    ctx.instance('C11.R1', 'String.encode iterates over all characters', 'ok' if ok else 'VIOLATION', node=f, file=CC)
    if not ok:
        ctx.violation('C11.R1', CC, f, 'constraints_checker.String.encode', 'the alphabet test does not visit every character of data', stmt='alphabet loop')
    # containers recurse
    for cn, coll, call in (('Dict', 'self.members', 'member.encode'), ('List', 'data', 'self.element_type.encode'),
                           ('Choice', None, 'member.encode'), ('Recursive', None, 'self.inner.encode')):
        f = model.cls(CC, cn).methods['encode']
        calls = [n for n in walk_no_nested(f) if isinstance(n, ast.Call) and ast.unparse(n.func) == call]
        ok = bool(calls)
        if ok and coll:
            p = calls[0]
            inloop = False
            for a in flow.ancestors(p):
                if isinstance(a, ast.For) and ast.unparse(a.iter) == coll:
                    inloop = True
            ok = inloop
        ctx.instance('C11.R1', '%s.encode recurses via %s' % (cn, call), 'ok' if ok else 'VIOLATION', node=f, file=CC)
        if not ok:
            ctx.violation('C11.R1', CC, f, 'constraints_checker.%s.encode' % cn, 'container does not check every child (%s over %s)' % (call, coll), stmt='recursion')
    # is_in_range operators
    f = typ.methods['is_in_range']
    src = ast.unparse(f)
    ok = 'value >= self.minimum' in src and 'value <= self.maximum' in src and 'not self.has_lower_bound()' in src and 'not self.has_upper_bound()' in src \
        and 'minimum_ok and maximum_ok' in src
    ctx.instance('C11.R1', 'is_in_range: (no lower or v >= min) and (no upper or v <= max)', 'ok' if ok else 'VIOLATION', node=f, file=CC)
    if not ok:
        ctx.violation('C11.R1', CC, f, 'constraints_checker.Type.is_in_range', 'bound comparison changed (must be inclusive on both ends and conjunctive)', stmt='is_in_range')
    for nm, const in (('has_lower_bound', 'MIN'), ('has_upper_bound', 'MAX')):
        g = typ.methods[nm]
        want = "return self.%s != '%s'" % ('minimum' if const == 'MIN' else 'maximum', const)
        ok = want in ast.unparse(g)
        ctx.instance('C11.R1', nm, 'ok' if ok else 'VIOLATION', node=g, file=CC)
        if not ok:
            ctx.violation('C11.R1', CC, g, 'constraints_checker.Type.' + nm, '%s must be `%s`' % (nm, want), stmt=nm)

    # ---- R2
    tab = dispatch.table(model, 'constraints_checker')
    per_tab = dispatch.table(model, 'per')
    string_kinds = set(cc.const_value('STRING_TYPES'))
    for name, cell in sorted(tab.cells.items()):
        args = ' '.join(cell.arg_src())
        has_size = 'self.get_size_range(' in args
        has_alpha = 'self.get_permitted_alphabet(' in args
        want_size = name in SIZE_KINDS or name in string_kinds
        want_alpha = name in string_kinds
        if name in ('OBJECT IDENTIFIER', 'ObjectDescriptor') and cell.cls is not None and cell.cls.name == 'String':
            want_size = has_size
            want_alpha = has_alpha
        ok = (has_size == want_size) and (has_alpha == want_alpha)
        if want_size or want_alpha or has_size or has_alpha:
            ctx.instance('C11.R2', "checker cell '%s' -> %s(%s)" % (name, cell.cls.name if cell.cls else '?', args[:60]), 'ok' if ok else 'VIOLATION', node=cell.ctor, file=CC)
            if not ok:
                ctx.violation('C11.R2', CC, cell.ctor or tab.func, "constraints_checker.Compiler.compile_type['%s']" % name,
                              "kind '%s': size range passed=%s (expected %s), permitted alphabet passed=%s (expected %s): the declared constraint never reaches the checker"
                              % (name, has_size, want_size, has_alpha, want_alpha), stmt="cell '%s'" % name)
        else:
            ctx.instance('C11.R2', "checker cell '%s'" % name, 'unconstrained kind', nontrivial=False, node=cell.ctor, file=CC)
    tail = ' '.join(ast.unparse(s) for s in tab.tail)
    ok = "'restricted-to' in type_descriptor" in tail and 'set_compiled_restricted_to' in tail
    ctx.instance('C11.R2', 'checker tail applies restricted-to', 'ok' if ok else 'VIOLATION', node=tab.func, file=CC)
    if not ok:
        ctx.violation('C11.R2', CC, tab.func, 'constraints_checker.Compiler.compile_type', "the 'restricted-to' key is no longer applied after the dispatch (value ranges ignored)", stmt='restricted-to tail')
    # the tail condition must not be narrowed by a type test
    for s in tab.tail:
        if isinstance(s, ast.If) and "'restricted-to'" in ast.unparse(s.test):
            ok = ast.unparse(s.test) == "'restricted-to' in type_descriptor"
            ctx.instance('C11.R2', 'restricted-to applied unconditionally for every kind', 'ok' if ok else 'VIOLATION', node=s, file=CC)
            if not ok:
                ctx.violation('C11.R2', CC, s, 'constraints_checker.Compiler.compile_type', 'restricted-to is applied only under an extra condition (%s)' % ast.unparse(s.test), stmt='restricted-to condition')
    # Integer receives its range through set_restricted_to_range -> set_range
    for nm in ('set_size_range', 'set_restricted_to_range'):
        g = typ.methods[nm]
        ok = 'self.set_range(minimum, maximum, has_extension_marker)' in ast.unparse(g)
        ctx.instance('C11.R2', 'Type.%s -> set_range' % nm, 'ok' if ok else 'VIOLATION', node=g, file=CC)
        if not ok:
            ctx.violation('C11.R2', CC, g, 'constraints_checker.Type.' + nm, '%s no longer forwards (minimum, maximum, has_extension_marker) to set_range' % nm, stmt=nm)

    # ---- R3 must-pass-through
    for qual, mode in (('Specification.encode', 'before'), ('Specification.decode', 'after'), ('Specification.decode_with_length', 'after')):
        f = model.func(COMP, qual)
        chk = [n for n in walk_no_nested(f) if isinstance(n, ast.Call) and isinstance(n.func, ast.Attribute) and n.func.attr == 'check_constraints']
        codec = [n for n in walk_no_nested(f) if isinstance(n, ast.Call) and isinstance(n.func, ast.Attribute)
                 and n.func.attr in (('encode',) if mode == 'before' else ('decode', 'decode_with_length')) and ast.unparse(n.func.value) == 'type_']
        ok = len(chk) == 1 and len(codec) == 1
        why = ''
        if ok:
            c, k = chk[0], codec[0]
            g = [t for t, pol in flow.guards_of(c, f)]
            ok = len(g) == 1 and ast.unparse(g[0]) == 'check_constraints'
            if not ok:
                why = 'check_constraints(...) is not guarded exactly by `if check_constraints`'
            else:
                # order + argument
                if mode == 'before':
                    ok = (c.lineno < k.lineno) and ast.unparse(c.args[0]) == ast.unparse(k.args[0])
                    if not ok:
                        why = 'the value checked is not the value encoded, or the check comes after the encode'
                else:
                    st = Model.enclosing_stmt(k)
                    names = flow.target_names(st.targets[0]) if isinstance(st, ast.Assign) else []
                    ok = c.lineno > k.lineno and bool(names) and ast.unparse(c.args[0]) == names[0]
                    rets = [r for r in walk_no_nested(f) if isinstance(r, ast.Return)]
                    ok = ok and all(r.lineno > c.lineno for r in rets)
                    if not ok:
                        why = 'a return is reachable without the decoded value passing check_constraints'
                # the guard must be a top-level statement of the function (not nested in another condition)
                if ok:
                    ifn = [a for a in flow.ancestors(c) if isinstance(a, ast.If)][0]
                    ok = getattr(ifn, '_parent', None) is f
                    if not ok:
                        why = 'the check is nested inside another condition'
        else:
            why = 'expected exactly one check_constraints call and one codec call'
        ctx.instance('C11.R3', Model.qual(f), 'passes through check_constraints' if ok else 'VIOLATION', why, node=f, file=COMP)
        if not ok:
            ctx.violation('C11.R3', COMP, f, Model.qual(f), why + ': with check_constraints=True a violating value reaches the wire / the caller unchecked', stmt='must-pass-through')
    # CompiledType.check_constraints dispatches to the constraints checker's encode
    f = model.func(BASE, 'CompiledType.check_constraints')
    ok = 'self.constraints_checker.encode(data)' in ast.unparse(f)
    ctx.instance('C11.R3', Model.qual(f), 'ok' if ok else 'VIOLATION', node=f, file=BASE)
    if not ok:
        ctx.violation('C11.R3', BASE, f, Model.qual(f), 'check_constraints no longer runs the constraints checker', stmt='dispatch')
    # Specification.__init__ attaches the checker compiled for the same module/type
    f = model.func(COMP, 'Specification.__init__')
    ok = 'type_.constraints_checker = constraints_checkers[module_name][type_name]' in ast.unparse(f)
    ctx.instance('C11.R3', 'Specification.__init__ attaches constraints_checkers[module][type]', 'ok' if ok else 'VIOLATION', node=f, file=COMP)
    if not ok:
        ctx.violation('C11.R3', COMP, f, Model.qual(f), 'the constraints checker attached to a type is not the one compiled for that module and type name', stmt='attach')

    # ---- R4
    f = typ.methods['set_range']
    first = f.body[0]
    ok = isinstance(first, ast.If) and ast.unparse(first.test) == 'has_extension_marker' and isinstance(first.body[0], ast.Return) and first.body[0].value is None
    # no store to self.minimum/maximum before it
    ctx.instance('C11.R4', 'Type.set_range returns first when extensible', 'ok' if ok else 'VIOLATION', node=f, file=CC)
    if not ok:
        ctx.violation('C11.R4', CC, f, 'constraints_checker.Type.set_range', 'an extensible constraint must leave the type unconstrained: `if has_extension_marker: return` must be the first statement', stmt='extensible early return')

    # ---- R5: no private bound resolution in the checker (no type_descriptor['size'] / ['restricted-to'] subscripts outside the base helpers)
    n5 = 0
    for g in [n for n in ast.walk(cc.tree) if isinstance(n, ast.FunctionDef)]:
        for n in walk_no_nested(g):
            if isinstance(n, ast.Subscript) and isinstance(n.slice, ast.Constant) and n.slice.value in ('size', 'restricted-to'):
                n5 += 1
                ctx.violation('C11.R5', CC, n, Model.qual(g), "constraints checker reads the '%s' descriptor key itself instead of the shared get_size_range/get_restricted_to_range "
                              '(value references and named numbers would not be resolved)' % n.slice.value)
    base = model.mod(BASE)
    for nm in ('get_size_range', 'get_restricted_to_range'):
        g = model.func(BASE, 'Compiler.' + nm)
        src = ast.unparse(g)
        ok = 'self.lookup_value(' in src and 'EXTENSION_MARKER in' in src
        ctx.instance('C11.R5', 'base Compiler.%s resolves value references and reports the extension marker' % nm, 'ok' if ok else 'VIOLATION', node=g, file=BASE)
        if not ok:
            ctx.violation('C11.R5', BASE, g, Model.qual(g), '%s no longer resolves value references / the extension marker' % nm, stmt=nm)
    g = model.func(BASE, 'Compiler.get_restricted_to_range')
    ok = "['named-numbers']" in ast.unparse(g)
    ctx.instance('C11.R5', 'get_restricted_to_range resolves named numbers', 'ok' if ok else 'VIOLATION', node=g, file=BASE)
    if not ok:
        ctx.violation('C11.R5', BASE, g, Model.qual(g), 'named-number bounds are no longer resolved', stmt='named numbers')

    # ---- R6 descriptor-key coverage on the reference path
    inline_keys = set()
    for cell in tab.cells.values():
        for s in cell.body:
            src = ast.unparse(s)
            if 'get_size_range(' in src:
                inline_keys.add('size')
            if 'get_permitted_alphabet(' in src:
                inline_keys.add('from')
    if "'restricted-to'" in tail:
        inline_keys.add('restricted-to')
    tail_keys = set()
    for s in tab.tail:
        for n in ast.walk(s):
            if isinstance(n, ast.Constant) and n.value in ('size', 'from', 'restricted-to'):
                tail_keys.add(n.value)
    cm = model.func(BASE, 'Compiler.compile_member')
    member_keys = {n.value for n in ast.walk(cm) if isinstance(n, ast.Constant) and n.value in ('size', 'from', 'restricted-to')}
    for k in sorted(inline_keys):
        ok = k in tail_keys
        where = 'compile_type tail' if ok else ('only compile_member' if k in member_keys else 'nowhere')
        ctx.instance('C11.R6', "constraint key '%s' on the reference path: %s" % (k, where), 'ok' if ok else 'VIOLATION', node=tab.func, file=CC)
        if not ok:
            ctx.violation('C11.R6', CC, tab.func, "constraints_checker.Compiler.compile_type::reference-path key '%s'" % k,
                          "the '%s' constraint is consumed for inline types but, for a type reference, %s: `T ::= OCTET STRING  U ::= T (%s ...)` is unconstrained "
                          'while the inline spelling is constrained' % (k, 'only inside compile_member (not for a top-level reference or a SEQUENCE OF element)' if k in member_keys else 'never',
                                                                       'SIZE' if k == 'size' else 'FROM'), stmt="key '%s' not in tail" % k)

    # ---- R7 copy discipline in the checker compiler + base
    n7 = 0
    for f, node, var, what, owned, why in copyrule.sites(model, [CC, BASE]):
        n7 += 1
        ctx.instance('C11.R7', '%s %s' % (Model.qual(f), what), 'owned' if owned else 'VIOLATION', why, node=node, file=f._mod.rel)
        if not owned:
            ctx.violation('C11.R7', f._mod.rel, node, Model.qual(f),
                          '%s configures an object that may be the cached, shared instance of a named type (%s): the constraint leaks to every other reference of that type'
                          % (what, why), stmt=norm_stmt(Model.enclosing_stmt(node)))
    ctx.floor('C11.R7', 4)
    ctx.floor('C11.R3', 5)


MUTANTS = [
    dict(name='decode_with_length skips check_constraints', file=COMP, quick=True,
         old="""        decoded, length = type_.decode_with_length(data)

        if check_constraints:
            type_.check_constraints(decoded)
""", new="""        decoded, length = type_.decode_with_length(data)
""", expect='C11.R3'),
    dict(name='Bytes no longer receives its size range', file=CC, quick=True,
         old="""            compiled = Bytes(name,
                             *self.get_size_range(type_descriptor,
                                                  module_name))""",
         new="""            compiled = Bytes(name, None, None, None)""", expect='C11.R2'),
    dict(name='lower bound exclusive', file=CC, quick=True,
         old="(value >= self.minimum)", new="(value > self.minimum)", expect='C11.R1'),
    dict(name='set_range assigns before the extension test', file=CC,
         old="""        if has_extension_marker:
            return

        if minimum is None:
            minimum = 'MIN'

        if maximum is None:
            maximum = 'MAX'

        self.minimum = minimum
        self.maximum = maximum""",
         new="""        if minimum is None:
            minimum = 'MIN'

        if maximum is None:
            maximum = 'MAX'

        self.minimum = minimum
        self.maximum = maximum

        if has_extension_marker:
            return""", expect='C11.R4'),
    dict(name='restricted-to only for Integer without copy', file=CC,
         old="""        if 'restricted-to' in type_descriptor:
            compiled = self.set_compiled_restricted_to(compiled,
                                                       type_descriptor,
                                                       module_name)
""", new="""        if 'restricted-to' in type_descriptor and isinstance(compiled, Integer):
            compiled.set_restricted_to_range(
                *self.get_restricted_to_range(type_descriptor,
                                              module_name))
""", expect=['C11.R2', 'C11.R7']),
    dict(name='List checks size only when non-empty', file=CC,
         old="""        length = len(data)

        if not self.is_in_range(length):
            raise ConstraintsError(
                'Expected a list of between""",
         new="""        length = len(data)

        if length and not self.is_in_range(length):
            raise ConstraintsError(
                'Expected a list of between""", expect='C11.R1'),
    dict(name='encode checks after encoding', file=COMP,
         old="""        if check_constraints:
            type_.check_constraints(data)

        return bytes(type_.encode(data, **kwargs))""",
         new="""        encoded = bytes(type_.encode(data, **kwargs))

        if check_constraints and not encoded:
            type_.check_constraints(data)

        return encoded""", expect='C11.R3'),
]
REFACTORS = [
    dict(name='compile_member copies via local helper name', file=BASE, quick=True,
         old="""        if 'optional' in member:
            compiled_member = self.copy(compiled_member)
            compiled_member.optional = member['optional']""",
         new="""        if 'optional' in member:
            compiled_member = self.copy(compiled_member)
            is_optional = member['optional']
            compiled_member.optional = is_optional"""),
]
