"""C20 -- GSER output is well-formed and determines the value (DESIGN.md section 4 C20)."""
import ast
import re

from ..model import AnalysisError, Model, walk_no_nested, norm_stmt, names_in, unparse_x
from ..callgraph import CallGraph
from .. import flow, dispatch, sem

EXPLANATION = (
    'Decided on asn1tools/codecs/gser.py: (R1) every string kind whose text is delimited by `"` passes the value through a sanitiser that '
    'doubles embedded quotes (.replace(\'"\', \'""\')) before it reaches the template; time kinds whose formatter cannot produce `"` are listed; '
    '(R2) every int(binascii.hexlify(x), 16) on an encode path is guarded against empty x (contradiction rule: the sibling sites in per/oer/xer '
    'all guard it); (R3) REAL: the special values are tested first and no exponent marker is appended to a `{}`-formatted float (str(float) may '
    'already carry one: 1e+22E0); (R4) the separator/indent parameters reach every child unchanged in kind; (R5) member presence is decided by '
    'membership (`name in data`), never by the value (`data.get(name) is None`: None is the value of NULL); (R6) the text names what it contains: '
    'SEQUENCE/SET members are emitted with their names and CHOICE with the alternative name (needed for the text to determine the value).  '
    'Not decided: injectivity in general; conformance of every production to RFC 3641.')
F = 'asn1tools/codecs/gser.py'
STRING_KINDS = ['UTF8String', 'NumericString', 'PrintableString', 'IA5String', 'VisibleString', 'GeneralString', 'BMPString',
                'GraphicString', 'UniversalString', 'TeletexString', 'ObjectDescriptor']
TIME_KINDS = {'UTCTime': 'YYMMDDhhmm[ss]Z digits', 'GeneralizedTime': 'digits, ".", "Z", "+-"', 'DATE': 'str(date): digits and "-"',
              'TIME-OF-DAY': 'str(time): digits and ":"', 'DATE-TIME': 'str(datetime): digits, "-", ":", "T"'}


_RESOLVERS = {}


def quoted_templates(f):
    """Calls  '<..."{}"...>'.format(x)  in f (a function, or an expression) -> [(call, arg)]"""
    out = []
    for n in (walk_no_nested(f) if isinstance(f, ast.FunctionDef) else ast.walk(f)):
        if isinstance(n, ast.Call) and isinstance(n.func, ast.Attribute) and n.func.attr == 'format' \
                and isinstance(n.func.value, ast.Constant) and isinstance(n.func.value.value, str) and '"' in n.func.value.value:
            out.append((n, n.args[0] if n.args else None))
        if isinstance(n, ast.JoinedStr):
            txt = ''.join(v.value for v in n.values if isinstance(v, ast.Constant))
            if '"' in txt:
                fv = [v.value for v in n.values if isinstance(v, ast.FormattedValue)]
                out.append((n, fv[0] if fv else None))
        if isinstance(n, ast.BinOp) and isinstance(n.op, (ast.Add, ast.Mod)):
            consts = [c for c in (n.left, n.right) if isinstance(c, ast.Constant) and isinstance(c.value, str) and '"' in c.value]
            if consts:
                other = n.right if n.left in consts else n.left
                out.append((n, other))
    return out


def is_sanitised(arg, f):
    """arg is  x.replace('"', '""')  possibly via a local."""
    def san(e):
        return isinstance(e, ast.Call) and isinstance(e.func, ast.Attribute) and e.func.attr == 'replace' and len(e.args) == 2 \
            and isinstance(e.args[0], ast.Constant) and e.args[0].value == '"' and isinstance(e.args[1], ast.Constant) and e.args[1].value == '""'
    if arg is None:
        return False
    if san(arg):
        return True
    if f is None:
        # an expression with helpers already inlined: str()/format wrappers around the sanitised text are fine
        if isinstance(arg, ast.Call) and isinstance(arg.func, ast.Name) and arg.func.id in ('str',) and arg.args:
            return is_sanitised(arg.args[0], None)
        return False
    if isinstance(arg, ast.Call) and isinstance(arg.func, ast.Name):
        # helper function that sanitises
        g = f._mod.functions.get(arg.func.id)
        if g is not None:
            return any(san(n) for n in ast.walk(g))
    if isinstance(arg, ast.Call) and isinstance(arg.func, ast.Attribute) and isinstance(arg.func.value, ast.Name) and arg.func.value.id == 'self':
        ci = getattr(f, '_cls', None)
        m = ci.find_method(arg.func.attr) if ci else None
        if m:
            return any(san(n) for n in ast.walk(m[1]))
    if isinstance(arg, ast.Name):
        binds = [a.value for a in walk_no_nested(f) if isinstance(a, ast.Assign) and arg.id in [x for t in a.targets for x in flow.target_names(t)]]
        return bool(binds) and all(san(b) or is_sanitised(b, f) for b in binds)
    return False


def _is_raw_float(arg, f):
    """Is the formatted argument the float itself (or str()/repr()/float() of it), i.e. text that may
    already contain an exponent?  A piece obtained by partition()/split() on the exponent marker, or a
    Decimal rendered with a fixed-point format, is not."""
    params = flow.param_names(f)

    def raw(e, depth=0):
        if isinstance(e, ast.Name):
            binds = [a.value for a in walk_no_nested(f) if isinstance(a, ast.Assign) and e.id in [x for t in a.targets for x in flow.target_names(t)]]
            if e.id in params and not binds:
                return True
            if e.id in params:
                # the parameter itself reaches this use unless a re-binding dominates it
                from ..copyrule import _last_dominating_binding
                st = Model.enclosing_stmt(e)
                dom = _last_dominating_binding(e.id, f, st) if st is not None else None
                if dom is None:
                    return True
                return raw(dom.value, depth + 1)
            if depth > 4:
                return True
            vals = []
            for a in walk_no_nested(f):
                if isinstance(a, ast.Assign):
                    for t in a.targets:
                        if isinstance(t, ast.Name) and t.id == e.id:
                            vals.append(a.value)
                        elif isinstance(t, ast.Tuple) and e.id in flow.target_names(t):
                            vals.append(a.value)
            return any(raw(v, depth + 1) for v in vals) or (e.id in params and not vals)
        if isinstance(e, ast.Call):
            fn = e.func
            if isinstance(fn, ast.Name) and fn.id in ('float', 'str', 'repr', 'abs'):
                return any(raw(a, depth + 1) for a in e.args)
            if isinstance(fn, ast.Attribute) and fn.attr in ('partition', 'split', 'rpartition', 'format', 'normalize', 'scaleb'):
                return False
            return False
        if isinstance(e, ast.BinOp):
            return raw(e.left, depth + 1) or raw(e.right, depth + 1)
        return False
    return raw(arg)


def check(ctx):
    model = ctx.model
    m = model.mod(F)
    tab = dispatch.table(model, 'gser')
    ctx.rule('C20.R1', 'quoted string emission goes through the quote-doubling sanitiser')
    ctx.rule('C20.R2', 'int(hexlify(x), 16) on encode paths is guarded against empty x')
    ctx.rule('C20.R3', 'REAL: special values first; no exponent appended to a formatted float')
    ctx.rule('C20.R4', 'separator/indent reach every child')
    ctx.rule('C20.R5', 'member presence is membership, not value')
    ctx.rule('C20.R6', 'text carries member / alternative names')

    # ---- R1
    n1 = 0
    for kind in STRING_KINDS:
        cell = tab.cells.get(kind)
        if cell is None or cell.cls is None:
            raise AnalysisError("gser dispatch has no cell for '%s'" % kind)
        enc = cell.cls.find_method('encode')
        if enc is None:
            raise AnalysisError('gser %s has no encode' % cell.cls.name)
        f = enc[1]

        def resolver(call, cls_=cell.cls, mod_=cell.cls.mod):
            if isinstance(call.func, ast.Name):
                r_ = mod_.resolve_name(call.func.id)
                return r_ if isinstance(r_, ast.FunctionDef) else None
            if isinstance(call.func, ast.Attribute) and isinstance(call.func.value, ast.Name) and call.func.value.id == 'self':
                r_ = cls_.find_method(call.func.attr)
                return r_[1] if r_ else None
            return None
        key = ('str', id(cell.cls))
        if key not in _RESOLVERS or _RESOLVERS[key][0] is not cell.cls:       # one resolver object per class *object* (a variant of the tree has its own classes)
            _RESOLVERS[key] = (cell.cls, resolver)
        ps = sem.paths(f, resolver=_RESOLVERS[key][1])
        rets = [p for p in (ps or []) if p.outcome[0] == 'return']
        if ps is None or not rets:
            ctx.instance('C20.R1', "%s ['%s']" % (Model.qual(f), kind), 'undecided', 'no returning path summarised', nontrivial=False, node=f, file=F)
            continue
        for p in rets:
            e = p.outcome[3]
            qs = quoted_templates(e)
            if not qs:
                # emitted without quotes?  then it cannot be a character string in RFC 3641 (StringValue is dquote-delimited)
                ctx.violation('C20.R1', F, f, Model.qual(f), "string kind '%s' is not emitted as a dquote-delimited StringValue" % kind, stmt='no quoted template')
                continue
            for call, arg in qs:
                n1 += 1
                ok = is_sanitised(arg, None)
                ctx.instance('C20.R1', "%s ['%s' -> %s]" % (Model.qual(f), kind, sem.ctext(e)[:60]), 'sanitised' if ok else 'VIOLATION', node=p.outcome[2], file=F)
                if not ok:
                    ctx.violation('C20.R1', F, p.outcome[2], Model.qual(f),
                                  'the value is placed between `"` without doubling embedded quotes: \'a"b\' is emitted as "a"b", which an RFC 3641 reader ends at the second quote '
                                  '(and the text no longer determines the value)', stmt='unsanitised quoted emission')
    for kind, why in TIME_KINDS.items():
        cell = tab.cells.get(kind)
        if cell is None or cell.cls is None:
            raise AnalysisError("gser dispatch has no cell for '%s'" % kind)
        f = cell.cls.find_method('encode')[1]
        key = ('time', id(cell.cls))
        if key not in _RESOLVERS or _RESOLVERS[key][0] is not cell.cls:
            def resolver(call, cls_=cell.cls, mod_=cell.cls.mod):
                if isinstance(call.func, ast.Name):
                    r_ = mod_.resolve_name(call.func.id)
                    return r_ if isinstance(r_, ast.FunctionDef) and r_._mod.rel == F else None
                return None
            _RESOLVERS[key] = (cell.cls, resolver)
        tps = sem.paths(f, resolver=_RESOLVERS[key][1]) or []
        dparam = flow.param_names(f)[1]
        for call, arg in [q for p in tps if p.outcome[0] == 'return' for q in quoted_templates(p.outcome[3])]:
            # the argument must be produced by a formatter (function call), not the raw data
            ok = isinstance(arg, ast.Call) and not (isinstance(arg.func, ast.Name) and arg.func.id == dparam)
            ctx.instance('C20.R1', "%s ['%s' time text: %s]" % (Model.qual(f), kind, why), 'formatter output' if ok else 'VIOLATION', nontrivial=False, node=call, file=F)
            if not ok:
                ctx.violation('C20.R1', F, call, Model.qual(f), "time kind '%s' emits raw data between quotes" % kind, stmt='raw time data')
    if n1 < 10:
        raise AnalysisError('C20.R1 saw only %d quoted string emissions' % n1)
    # ... and that formatter output determines the instant: numeric date fields are zero-filled to their width
    from .. import siblings
    used = set()
    for kind in TIME_KINDS:
        cell = tab.cells.get(kind)
        for f_ in ([cell.cls.find_method('encode')[1]] if cell is not None and cell.cls is not None else []):
            for c_ in walk_no_nested(f_):
                if isinstance(c_, ast.Call) and isinstance(c_.func, ast.Name) and c_.func.id.endswith('_from_datetime'):
                    used.add(c_.func.id)
    for fdef, nfmt, bad in siblings.unpadded_date_fields(model, lambda name: name in used):
        ctx.instance('C20.R1', '%s: numeric date fields zero-filled (%d formatted outside strftime)' % (Model.qual(fdef), nfmt), 'ok' if not bad else 'VIOLATION', nontrivial=nfmt > 0,
                     node=fdef, file='asn1tools/codecs/__init__.py')
        for n, attr, spec, width in bad:
            ctx.violation('C20.R1', 'asn1tools/codecs/__init__.py', n, Model.qual(fdef),
                          'the %s field is formatted without zero fill to %d digits: the text of a GSER time value no longer determines the instant (.05 s and .5 s both give ".5")' % (attr, width),
                          stmt='unpadded %s' % attr)

    # ---- R2 across the codecs (encode paths)
    cg = CallGraph(model)
    roots = []
    for name in ('ber', 'der', 'per', 'uper', 'oer', 'jer', 'xer', 'gser'):
        mm = model.mod('asn1tools/codecs/%s.py' % name)
        c = mm.classes.get('CompiledType')
        if c and 'encode' in c.methods:
            roots.append(c.methods['encode'])
    reach = cg.reachable(roots)
    n2 = 0
    for f in sorted(reach, key=lambda g: (g._mod.rel, g.lineno)):
        if not f._mod.rel.startswith('asn1tools/codecs/'):
            continue
        if not (f.name.startswith('encode') or f.name.startswith('append')):
            continue
        for n in walk_no_nested(f):
            if isinstance(n, ast.Call) and isinstance(n.func, ast.Name) and n.func.id == 'int' and len(n.args) == 2 \
                    and isinstance(n.args[0], ast.Call) and ast.unparse(n.args[0].func) == 'binascii.hexlify':
                n2 += 1
                x = n.args[0].args[0]
                xr = flow._root(x)
                guarded = False
                how = ''
                gs = flow.guards_of(n, f)
                for test, pol in gs:
                    t = ast.unparse(test)
                    if (xr and xr in names_in(test)) or 'number_of_bits' in t or 'len(' in t:
                        guarded = True
                        how = 'guard `%s`' % t
                cons = '%s [int(hexlify(%s), 16)]' % (Model.qual(f), ast.unparse(x))
                ctx.instance('C20.R2', cons, how if guarded else 'VIOLATION', node=n, file=f._mod.rel)
                if not guarded:
                    ctx.violation('C20.R2', f._mod.rel, n, Model.qual(f),
                                  'int(binascii.hexlify(%s), 16) without an emptiness guard: for an empty value hexlify gives b"" and int() raises ValueError '
                                  '(the sibling sites in per/oer Encoder.append_bits and xer.BitString.encode test for it first)' % ast.unparse(x),
                                  stmt='int(hexlify(%s), 16)' % ast.unparse(x))
    if n2 < 1:
        raise AnalysisError('C20.R2 saw only %d hexlify sites on encode paths' % n2)

    # ---- R3
    real = tab.cells['REAL'].cls
    f = real.find_method('encode')[1]
    src = ast.unparse(f)
    tests = [ast.unparse(n.test) for n in walk_no_nested(f) if isinstance(n, ast.If)]
    specials = ["float('inf')", "float('-inf')", 'math.isnan(data)']
    first_fmt = min([n.lineno for n in walk_no_nested(f) if isinstance(n, ast.Call) and isinstance(n.func, ast.Attribute) and n.func.attr == 'format'] or [10 ** 9])
    for sp in specials:
        hit = [n for n in walk_no_nested(f) if isinstance(n, ast.If) and sp in unparse_x(n.test, f)]
        ok = bool(hit) and hit[0].lineno < first_fmt
        ctx.instance('C20.R3', '%s tests %s before formatting' % (Model.qual(f), sp), 'ok' if ok else 'VIOLATION', node=f, file=F)
        if not ok:
            ctx.violation('C20.R3', F, f, Model.qual(f), 'special value %s is not handled before the float is formatted' % sp, stmt='special ' + sp)
    from ..siblings import lossy_float_ops
    from .C02 import float_param_aliases
    lossy = lossy_float_ops(f, float_param_aliases(f))
    ctx.instance('C20.R3', '%s: the float is not rounded before it is formatted' % Model.qual(f), 'ok' if not lossy else 'VIOLATION', node=f, file=F)
    for n_, what_ in lossy[:1]:
        ctx.violation('C20.R3', F, n_, Model.qual(f),
                      'the float goes through %s before the text is produced: fewer than 17 significant digits do not identify a double, so two different values produce the same '
                      'GSER text (0.1 + 0.2 and 0.3) and the text does not determine the value' % what_, stmt='float rounded before formatting')
    for n in walk_no_nested(f):
        if isinstance(n, ast.Call) and isinstance(n.func, ast.Attribute) and n.func.attr == 'format' and isinstance(n.func.value, ast.Constant) \
                and isinstance(n.func.value.value, str):
            t = n.func.value.value
            bad = ('{}E' in t or '{}e' in t or '{0}E' in t) and n.args and _is_raw_float(n.args[0], f)
            ctx.instance('C20.R3', '%s template %r' % (Model.qual(f), t), 'ok' if not bad else 'VIOLATION', node=n, file=F)
            if bad:
                ctx.violation('C20.R3', F, n, Model.qual(f),
                              'the template %r appends an exponent marker to a `{}`-formatted float; str(float) already uses exponent notation for large and small '
                              'magnitudes, so 1e22 is emitted as 1e+22E0 (not a RealValue; not the same number to a reader that stops at the first exponent)' % t,
                              stmt='template %r' % t)

    # ---- R4
    n4 = 0
    for c in m.classes.values():
        f = c.methods.get('encode')
        if f is None or len(flow.param_names(f)) < 4:
            continue
        ps = flow.param_names(f)
        sep, ind = ps[2], ps[3]
        for call in sem.method_calls(f, 'encode'):
            if len(call.args) == 3:
                n4 += 1
                d, ed = flow.deps(f)
                ok = sep in ed(call.args[1]) and ast.unparse(call.args[2]) == ind
                ctx.instance('C20.R4', '%s -> %s' % (Model.qual(f), ast.unparse(call)[:60]), 'ok' if ok else 'VIOLATION', node=call, file=F)
                if not ok:
                    ctx.violation('C20.R4', F, call, Model.qual(f), 'child encode does not receive the separator/indent of its parent: nested values are laid out differently in compact and indented output', stmt='layout parameters')
    if n4 == 0:
        ctx.instance('C20.R4', 'gser child encode calls', 'undecided', 'no direct child.encode(value, separator, indent) call found (children may be encoded through a helper)', nontrivial=False)

    # ---- R5 / R6 on MembersType and Choice
    mtc = model.cls(F, 'MembersType')
    mt = mtc.methods['encode']
    # encode and the steps it hands the value to (methods of the object, helpers of the module): (function, name of the value there)
    fam5 = [(mt, flow.param_names(mt)[1])]
    for g5, d5 in fam5:
        for c5 in walk_no_nested(g5):
            if not isinstance(c5, ast.Call) or len(fam5) > 8:
                continue
            tgt5 = None
            if isinstance(c5.func, ast.Attribute) and isinstance(c5.func.value, ast.Name) and c5.func.value.id == 'self':
                r5 = mtc.find_method(c5.func.attr)
                tgt5 = (r5[1], [p_ for p_ in flow.param_names(r5[1]) if p_ != 'self']) if r5 else None
            elif isinstance(c5.func, ast.Name):
                r5 = model.mod(F).resolve_name(c5.func.id)
                tgt5 = (r5, flow.param_names(r5)) if isinstance(r5, ast.FunctionDef) else None
            if tgt5 is None or any(tgt5[0] is x_ for x_, _d in fam5):
                continue
            for i5, a5 in enumerate(c5.args):
                if isinstance(a5, ast.Name) and a5.id == d5 and i5 < len(tgt5[1]):
                    fam5.append((tgt5[0], tgt5[1][i5]))
    gets = [n for g5, d5 in fam5 for n in walk_no_nested(g5) if isinstance(n, ast.Call) and isinstance(n.func, ast.Attribute) and n.func.attr in ('get', 'pop', 'setdefault')
            and isinstance(n.func.value, ast.Name) and n.func.value.id == d5]
    def from_value(g5, d5):
        """names of g5 that hold something taken from the value (directly, or through a step that is handed the value)"""
        dd, _e = flow.deps(g5, sources={d5})
        return {d5} | {nm_ for nm_, src_ in dd.items() if src_}
    none_tests = [n for g5, d5 in fam5 for n in walk_no_nested(g5) if isinstance(n, ast.Compare) and isinstance(n.ops[0], (ast.Is, ast.IsNot, ast.Eq, ast.NotEq))
                  and isinstance(n.comparators[0], ast.Constant) and n.comparators[0].value is None and names_in(n.left) & from_value(g5, d5)]
    member_in = [n for g5, d5 in fam5 for n in walk_no_nested(g5) if isinstance(n, ast.Compare) and isinstance(n.ops[0], ast.In) and ast.unparse(n.comparators[0]) == d5]
    ok = not gets and not none_tests and bool(member_in)
    ctx.instance('C20.R5', '%s presence test' % Model.qual(mt), '`name in data`' if ok else 'VIOLATION', node=mt, file=F)
    if not ok:
        ctx.violation('C20.R5', F, (gets + none_tests + [mt])[0], Model.qual(mt),
                      'member presence is decided from the value (data.get()/is None) instead of `name in data`: a present NULL member (value None) is dropped, '
                      'so two different values produce the same text', stmt='presence by value')
    def formatted_parts(f_):
        """canonical texts of everything placed into a string by format() / f-string / % / + in f_"""
        v_ = sem.View(f_)
        out_ = []
        for n_ in walk_no_nested(f_):
            if isinstance(n_, ast.Call) and isinstance(n_.func, ast.Attribute) and n_.func.attr == 'format':
                out_.extend((v_.text(a_), n_) for a_ in n_.args)
                out_.extend((v_.text(k_.value), n_) for k_ in n_.keywords)
            elif isinstance(n_, ast.JoinedStr):
                out_.extend((v_.text(x_.value), n_) for x_ in n_.values if isinstance(x_, ast.FormattedValue))
            elif isinstance(n_, ast.BinOp) and isinstance(n_.op, (ast.Mod, ast.Add)):
                for x_ in (n_.left, n_.right):
                    for y_ in (x_.elts if isinstance(x_, ast.Tuple) else [x_]):
                        out_.append((v_.text(y_), n_))
        return out_
    ok = any(t.endswith('.name') for t, _n in formatted_parts(mt))
    ctx.instance('C20.R6', '%s emits member names' % Model.qual(mt), 'ok' if ok else 'VIOLATION', node=mt, file=F)
    if not ok:
        ctx.violation('C20.R6', F, mt, Model.qual(mt), 'SEQUENCE/SET members are emitted without their identifiers', stmt='member names')
    ch = model.cls(F, 'Choice').methods['encode']
    dparam = flow.param_names(ch)[1]
    def has_colon(n_):
        return any(isinstance(c_, ast.Constant) and isinstance(c_.value, str) and ':' in c_.value for c_ in ast.walk(n_))
    ok = any((t == '%s[0]' % dparam or t.endswith('.name')) and has_colon(n_) for t, n_ in formatted_parts(ch))
    ctx.instance('C20.R6', '%s emits "<alternative> : <value>"' % Model.qual(ch), 'ok' if ok else 'VIOLATION', node=ch, file=F)
    if not ok:
        ctx.violation('C20.R6', F, ch, Model.qual(ch), 'CHOICE value is emitted without the alternative identifier', stmt='choice identifier')
    # top level wrapper: "<name> <Type> ::= <value>"
    ct = model.cls(F, 'CompiledType').methods['encode']
    ok = any(isinstance(n, ast.Constant) and isinstance(n.value, str) and '::=' in n.value for n in ast.walk(ct))
    ctx.instance('C20.R6', '%s wraps as "name Type ::= value"' % Model.qual(ct), 'ok' if ok else 'VIOLATION', node=ct, file=F)
    if not ok:
        ctx.violation('C20.R6', F, ct, Model.qual(ct), 'top-level "name Type ::= value" wrapper is gone', stmt='wrapper')

    # ---- R7: the text determines the value.  A value with components (BIT STRING = (octets, number of bits), CHOICE = (name, value)) is emitted so that every
    #      component flows into the returned text on every path -- unless the conditions of the path pin it to a constant.  A component that only steers the
    #      choice of a form (say `number_of_bits % 4 == 0`) and is then left out cannot be recovered from the text: two values share one text.
    ctx.rule('C20.R7', 'every component of a composite value flows into the emitted text on every path (or is fixed by the path conditions)')
    n7 = 0
    for c in model.mod(F).classes.values():
        f7 = c.methods.get('encode')
        if f7 is None or c.name in ('CompiledType', 'Compiler'):
            continue
        f7 = flow.unwrap_delegate(f7)          # `return bstring(data)`: the helper does the work
        dp = [p_ for p_ in flow.param_names(f7) if p_ != 'self']
        if len(dp) < 1:
            continue
        dp = dp[0]
        comps = sorted({n.slice.value for n in walk_no_nested(f7) if isinstance(n, ast.Subscript) and isinstance(n.value, ast.Name) and n.value.id == dp
                        and isinstance(n.slice, ast.Constant) and isinstance(n.slice.value, int)})
        if len(comps) < 2:
            continue
        ps7 = sem.paths(f7, resolver=sem.class_resolver(c)) if getattr(f7, '_cls', None) is not None else sem.paths(f7)
        if ps7 is None:
            ctx.instance('C20.R7', Model.qual(f7), 'undecided', 'too many paths', nontrivial=False, node=f7, file=F)
            continue
        for p in ps7:
            if p.outcome[0] != 'return' or len(p.outcome) < 4 or p.outcome[3] is None:
                continue
            n7 += 1
            text = p.outcome[1]
            # what the text is built from: the returned expression and every call made on the path whose result can reach it (children encoders)
            missing = []
            for k in comps:
                ref = '%s[%d]' % (dp, k)
                in_text = ref in text or any(ev[0] == 'call' and ref in ev[1] for ev in p.events)      # part of the text, or handed to a call made on the path (a child encoder, a formatter)
                pinned = any(c_[1] and re.match(r'^%s( -\d+)? == 0$' % re.escape(ref), c_[0]) for c_ in p.conds)
                if not in_text and not pinned:
                    missing.append(ref)
            # the empty value: a component pinned to zero (a bit count of 0) makes the other components irrelevant, and the text is a constant
            if missing and isinstance(p.outcome[3], ast.Constant) and any(c_[1] and re.match(r'^%s\[\d\] == 0$' % re.escape(dp), c_[0]) for c_ in p.conds):
                missing = []
            ctx.instance('C20.R7', '%s returns %s' % (Model.qual(f7), text[:70]), 'ok' if not missing else 'VIOLATION', node=p.outcome[2] if len(p.outcome) > 2 and hasattr(p.outcome[2], 'lineno') else f7, file=F)
            if missing:
                ctx.violation('C20.R7', F, p.outcome[2] if len(p.outcome) > 2 and hasattr(p.outcome[2], 'lineno') else f7, Model.qual(f7),
                              'on the path [%s] the emitted text `%s` does not depend on %s (it is neither part of the text nor fixed by the conditions): values that differ only in '
                              'that component produce the same GSER text' % ('; '.join(('' if c_[1] else 'not ') + c_[0] for c_ in p.conds)[:200], text[:90], ', '.join(missing)),
                              stmt='text independent of %s' % ', '.join(missing))
    if n7 < 2:
        raise AnalysisError('C20.R7 examined only %d returning paths of composite encoders' % n7)

    # ---- R8 (sa/texttaint.py): the finished text of a child is composed, never rewritten
    ctx.rule('C20.R8', 'text returned by a child encoder reaches the output through composition only (format / join / +): no replace, re.sub, strip, split or slice is applied to it')
    from .. import texttaint
    n8 = 0
    gm = model.mod(F)
    for c8 in gm.classes.values():
        for mn8 in ('encode',):
            f8 = c8.methods.get(mn8)
            if f8 is None:
                continue
            taint8, _t = texttaint.tainted_names(f8)
            if not taint8:
                continue
            n8 += 1
            bad8 = texttaint.rewrites_of_encoded_text(f8, gm, c8)
            ctx.instance('C20.R8', '%s composes the text of its children (%s)' % (Model.qual(f8), ', '.join(sorted(taint8))[:60]), 'composition only' if not bad8 else 'VIOLATION', node=f8, file=F)
            for node8, what8 in bad8[:1]:
                ctx.violation('C20.R8', F, node8, Model.qual(f8),
                              'the encoded text of the children goes through %s: finished text contains character-string values in which a line break, a comma or a space is data, so '
                              'rewriting it by content changes those values (an embedded line feed gains indentation) and the emitted text no longer maps back to the value'
                              % what8, stmt='encoded text rewritten')
    if n8 < 1:
        raise AnalysisError('C20.R8 found only %d container encoders' % n8)


MUTANTS = [
    dict(name='presence decided by data.get() is None', file=F, quick=True,
         old="""        for member in self.members:
            name = member.name

            if name in data:
                try:
                    encoded_member = member.encode(data[name],""",
         new="""        for member in self.members:
            name = member.name

            if member.optional and data.get(name) is None:
                continue

            if name in data:
                try:
                    encoded_member = member.encode(data[name],""", expect='C20.R5'),
    dict(name='choice drops the alternative name', file=F, quick=True,
         old="        return u'{} : {}'.format(data[0], encoded)", new="        return u'{}'.format(encoded)", expect='C20.R6'),
    dict(name='array children get the parent separator reset', file=F, quick=True,
         old="""            encoded_element = self.element_type.encode(entry,
                                                       element_separator,
                                                       indent)""",
         new="""            encoded_element = self.element_type.encode(entry,
                                                       ' ',
                                                       indent)""", expect='C20.R4'),
    dict(name='nan falls through to formatting', file=F,
         old="""        elif math.isnan(data):
            raise EncodeError('Cannot encode floating point number NaN.')
        elif data == 0.0:""", new="""        elif data == 0.0:""", expect='C20.R3'),
]
REFACTORS = []

MUTANTS.append(dict(name='long BIT STRING emitted as hstring of all octets, bit count left out', file=F,
                    old="""        if data[1] == 0:
            return "''B"
""", new="""        if data[1] == 0:
            return "''B"

        if data[1] > 64 and data[1] % 4 == 0:
            return "'{}'H".format(format_bytes(data[0])).upper()
""", expect='C20.R7'))

MUTANTS.append(dict(name='GSER REAL rounded to 15 significant digits', file=F,
                    old="""            # str() may already use exponent notation""", new="""            data = float('{:.15g}'.format(data))
            # str() may already use exponent notation""", expect='C20.R3'))
