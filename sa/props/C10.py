"""C10 -- generated OER C code: memory safety and agreement with the Python OER codec (DESIGN.md section 4 C10)."""
import ast
import re

from ..model import AnalysisError, Model, walk_no_nested, norm_stmt
from .. import flow, chelpers, cgen, evalexpr, sem
from . import C09

EXPLANATION = (
    'As C09 on source/c/oer.py and the 44 OER helper strings (R1-R6, R8; the cursor counts octets), plus: (R7) static-length and width decision '
    'tables agree exactly on every cell their boundary constants cut out (decision-table equivalence with the checker own evaluators for Python '
    'and for pycparser trees): get_length_determinant_length (Python, used for the length prefix of extension additions) == length_determinant_length '
    '(C) == the branch boundaries of encoder_append_length_determinant == X.696 8.6; get_enumerated_value_length == enumerated_value_length + 1 '
    'outside the short form; Generator.value_length == minimum_uint_length up to 4 octets; the wire width the generator uses for INTEGER '
    '(type_length // 8) == the width oer.Integer.set_restricted_to_range selects for the same range; the generator uses the one-octet length form '
    'only below 128; (R9) unknown extension additions are skipped by their length (decoder_read_length_determinant + decoder_free per unknown '
    'presence bit) and the received bitmap header is range-checked before use.  Not decided: as C09; equality with the Python OER codec for '
    'additions nested in CHOICE/SET.')
GEN = 'asn1tools/source/c/oer.py'
FUN = 'asn1tools/source/c/oer_functions.py'
UTIL = 'asn1tools/source/c/utils.py'
OER = 'asn1tools/codecs/oer.py'


def check(ctx):
    model = ctx.model
    ctx.rule('C10.R1', 'C helpers: every buffer access inside a checked allocation; cursor ownership; local arrays; loop shape')
    ctx.rule('C10.R2', 'generator: bounds check on checker.maximum emitted before every run-time-length access; array sizes')
    ctx.rule('C10.R3', 'generator: encode/decode template pairing per format_*_inner (branch)')
    ctx.rule('C10.R4', 'helper registry closed and ordered callee-after-caller')
    ctx.rule('C10.R5', 'reject, do not mis-translate: dispatch chains agree; no empty translation; else raises')
    ctx.rule('C10.R6', 'range errors raised before a width is chosen')
    ctx.rule('C10.R7', 'static-length / width decision tables: Python generator == C helpers == Python OER codec == X.696')
    ctx.rule('C10.R8', 'loop counter / decoded length type holds checker.maximum')
    ctx.rule('C10.R9', 'unknown extension additions skipped by their length; bitmap header range-checked')
    C09.helper_rules(ctx, 'C10', FUN, 8)
    C09.arithmetic_rules(ctx, 'C10', FUN, 8)
    # generator_rules writes R7 as "C type holds the range" and R8 as the loop counter; C10 keeps those ids
    C09.generator_rules(ctx, 'C10', GEN, FUN, 'oer')

    # ---- R7 decision-table equivalences
    # (a) length determinant length: Python vs C vs encoder branches
    py = model.mod(GEN).functions.get('get_length_determinant_length')
    if py is None:
        raise AnalysisError('get_length_determinant_length vanished')
    cfd = chelpers.find_func(model, FUN, 'length_determinant_length')
    enc = chelpers.find_func(model, FUN, 'encoder_append_length_determinant')
    pts = set(evalexpr.boundaries(py)) | chelpers.c_boundaries(cfd) | chelpers.c_boundaries(enc) | {0, 1}
    pts = sorted(p for p in pts if 0 <= p < 2 ** 32)
    diff = None
    for v in pts:
        a, _ = evalexpr.run_function(py, {flow.param_names(py)[0]: v})
        b = chelpers.c_run(cfd, {cfd.decl.type.args.params[0].name: v})
        want = 1 if v < 128 else 2 if v < 256 else 3 if v < 65536 else 4 if v < 16777216 else 5
        if not (a == b == want) and diff is None:
            diff = (v, a, b, want)
    ctx.instance('C10.R7', 'length determinant length: Python, C and X.696 8.6 on %d cells' % len(pts), 'ok' if diff is None else 'VIOLATION', node=py, file=GEN)
    if diff is not None:
        who = py if diff[1] != diff[3] else None
        ctx.violation('C10.R7', GEN if who is not None else FUN, who, Model.qual(py) if who is not None else '%s::length_determinant_length' % FUN,
                      'for a length of %d the Python generator computes a %s-octet length determinant, the C helper %s, X.696 8.6 prescribes %d: the statically computed length prefix '
                      'of an extension addition of that size is wrong' % diff, stmt='length determinant length table')
    # encoder_append_length_determinant branch boundaries == the same cells
    eb = sorted({b for b in chelpers.c_boundaries(enc) if b in (128, 256, 65536, 16777216)})
    ok = eb == [128, 256, 65536, 16777216]
    ctx.instance('C10.R7', 'encoder_append_length_determinant boundaries %s' % eb, 'ok' if ok else 'VIOLATION', file=FUN)
    if not ok:
        ctx.violation('C10.R7', FUN, None, '%s::encoder_append_length_determinant' % FUN, 'branch boundaries %s differ from {128, 256, 65536, 16777216}' % eb, stmt='length determinant encoder boundaries')
    # (b) enumerated value length
    g = model.cls(GEN, '_Generator')
    pyf = g.methods.get('get_enumerated_value_length')
    cf2 = chelpers.find_func(model, FUN, 'enumerated_value_length')
    pts = sorted(p for p in (set(evalexpr.boundaries(pyf)) | chelpers.c_boundaries(cf2) | {0}) if -2 ** 31 <= p < 2 ** 31)
    diff = None
    for v in pts:
        try:
            a, _ = evalexpr.run_function(pyf, {'value': v})
        except evalexpr.Raised:
            a = None
        b = chelpers.c_run(cf2, {cf2.decl.type.args.params[0].name: v})
        # the C helper returns the number of *additional* octets: 0 for the short form 0..127, else the integer length
        want_c = 0 if 0 <= v < 128 else (1 if -128 <= v < 128 else 2 if -32768 <= v < 32768 else 3 if -8388608 <= v < 8388608 else 4)
        want_py = 1 if -128 <= v < 128 else 2 if -32768 <= v < 32768 else 3 if -8388608 <= v < 8388608 else 4
        if (a != want_py or b != want_c) and diff is None:
            diff = (v, a, want_py, b, want_c)
    ctx.instance('C10.R7', 'enumerated value length: Python and C on %d cells' % len(pts), 'ok' if diff is None else 'VIOLATION', node=pyf, file=GEN)
    if diff is not None:
        ctx.violation('C10.R7', GEN, pyf, Model.qual(pyf), 'for the enumeration value %d: Python %s (expected %s), C %s (expected %s)' % diff, stmt='enumerated value length table')
    # (b') a *static* encoded length of an ENUMERATED (used for the length prefix of an extension addition) is right for every value of the enumeration:
    #      get_encoded_enumerated_length evaluated on enumerations of boundary values; a result made of integers only must equal the X.696 11 length of each value
    #      (1 octet for 0..127, otherwise 1 + the octets of the value); a result with a C expression is the run-time helper checked under (b)
    gel = g.methods.get('get_encoded_enumerated_length')
    if gel is not None:
        def x696_enum_len(v):
            return 1 if 0 <= v < 128 else 1 + (1 if -128 <= v < 128 else 2 if -32768 <= v < 32768 else 3 if -8388608 <= v < 8388608 else 4)
        n_static = n_rt = 0
        badb = None
        for vals in ((0,), (5,), (127,), (128,), (-1,), (-128,), (-129,), (0, 127), (-1, 5), (-128, 127), (-5, -1), (128, 255), (200, 300), (32767,), (32768,), (-32768, -1), (70000,), (-1, -2, -3)):
            env = {flow.param_names(gel)[1]: evalexpr.Obj(value_to_data={v: 'e%d' % i for i, v in enumerate(vals)}, data_to_value={'e%d' % i: v for i, v in enumerate(vals)}, name='x')}
            try:
                res, _env = evalexpr.run_function(gel, env)
            except (evalexpr.Unsupported, evalexpr.Raised, KeyError, TypeError, AttributeError):
                n_rt += 1        # the path that defers to the C helper (context manager, location strings): not a static result
                continue
            if isinstance(res, (list, tuple)) and all(isinstance(x, int) and not isinstance(x, bool) for x in res):
                n_static += 1
                wrong = [v for v in vals if x696_enum_len(v) != sum(res)]
                if wrong and badb is None:
                    badb = (vals, sum(res), wrong[0], x696_enum_len(wrong[0]))
            else:
                n_rt += 1
        ctx.instance('C10.R7', 'get_encoded_enumerated_length: %d enumerations with a static length evaluated, %d defer to the C helper' % (n_static, n_rt),
                     'VIOLATION' if badb else 'ok', nontrivial=True, node=gel, file=GEN)
        if badb:
            ctx.violation('C10.R7', GEN, gel, Model.qual(gel),
                          'for ENUMERATED with the values %s the generator uses the static encoded length %d, but the value %d is encoded in %d octets (X.696 11: one octet only for 0..127): '
                          'the length prefix of an extension addition holding it is wrong, so an older decoder skips the wrong number of octets' % badb, stmt='static enumerated length')
    # (c) value_length vs minimum_uint_length (up to 4 octets)
    vl = model.func(UTIL, 'Generator.value_length')
    cf3 = chelpers.find_func(model, FUN, 'minimum_uint_length')
    pts = sorted(p for p in (set(evalexpr.boundaries(vl)) | chelpers.c_boundaries(cf3) | {0}) if 0 <= p < 2 ** 32)
    diff = None
    for v in pts:
        a, _ = evalexpr.run_function(vl, {'value': v})
        b = chelpers.c_run(cf3, {cf3.decl.type.args.params[0].name: v})
        want = 1 if v < 256 else 2 if v < 65536 else 3 if v < 16777216 else 4
        if not (a == b == want) and diff is None:
            diff = (v, a, b, want)
    ctx.instance('C10.R7', 'value_length (Python) == minimum_uint_length (C) on %d cells' % len(pts), 'ok' if diff is None else 'VIOLATION', node=vl, file=UTIL)
    if diff is not None:
        ctx.violation('C10.R7', UTIL, vl, Model.qual(vl), 'for the value %d: value_length %s, minimum_uint_length %s, expected %d octets' % diff, stmt='uint length table')
    # (d) INTEGER wire width: generator vs Python codec
    tl = model.func(UTIL, 'Generator.type_length')
    sr = model.func(OER, 'Integer.set_restricted_to_range')
    gel = g.methods.get('get_encoded_integer_lengths')
    def has_expr(f_, want_):
        if f_ is None:
            return False
        v_ = sem.View(f_)
        cp = flow.param_names(f_)[1] if len(flow.param_names(f_)) > 1 else 'checker'
        want_ = sem.ctext(sem.parse_expr(want_.replace('checker', cp)))
        return any(isinstance(n_, ast.expr) and not isinstance(n_, (ast.Name, ast.Constant)) and v_.text(n_) == want_ for n_ in walk_no_nested(f_))
    ok = has_expr(gel, 'self.type_length(checker.minimum, checker.maximum) // 8')
    fi = g.methods.get('format_integer_inner')
    ok = ok and has_expr(fi, 'self.format_type_name(checker.minimum, checker.maximum)[:-2]')
    ctx.instance('C10.R7', 'OER generator derives the INTEGER wire width from type_length(minimum, maximum)', 'ok' if ok else 'VIOLATION', node=fi or g.node, file=GEN)
    if not ok:
        ctx.violation('C10.R7', GEN, fi or g.node, '%s::_Generator.format_integer_inner' % GEN, 'the INTEGER helper suffix / static length is no longer derived from type_length(checker.minimum, checker.maximum)', stmt='integer width source')
    pts = cgen.range_points()
    cells = 0
    groups = {}
    cant7 = None
    for lo in pts:
        for hi in pts:
            if hi < lo:
                continue
            try:
                cw, _ = evalexpr.run_function(tl, {'minimum': lo, 'maximum': hi})
            except evalexpr.Raised:
                continue
            except evalexpr.Unsupported as e:
                cant7 = cant7 or str(e)
                continue
            try:
                _r, out = evalexpr.run_function(sr, {'minimum': lo, 'maximum': hi, 'has_extension_marker': False, 'self.length': None, 'self.fmt': None,
                                                      'self.signed': True, 'self.has_extension_marker': False})
            except evalexpr.Unsupported as e:
                cant7 = cant7 or str(e)
                continue
            pw = out.get('self.length')
            if pw is None:
                continue
            cells += 1
            if cw // 8 != pw:
                groups.setdefault(('%d octets in C, %d in the Python codec' % (cw // 8, pw), 'minimum < 0' if lo < 0 else 'minimum >= 0'), (lo, hi))
    ctx.extra['integer_width_cells'] = cells
    ctx.instance('C10.R7', 'INTEGER wire width: C generator vs Python OER codec on %d cells' % cells,
                 ('ok' if cells else 'undecided') if not groups else 'VIOLATION', ('not in a shape the evaluator follows: %s' % cant7) if cant7 else '', nontrivial=cells > 0, node=tl, file=UTIL)
    for (what, sign), (lo, hi) in sorted(groups.items()):
        ctx.violation('C10.R7', UTIL, tl, Model.qual(tl), 'for INTEGER (%d..%d): %s -- the generated code and the Python codec do not interoperate' % (lo, hi, what),
                      stmt='integer wire width differs (%s, %s)' % (what, sign))
    # (e) the generator's one-octet length form only below 128
    for name, f in sorted(g.methods.items()):
        if not name.endswith('_inner'):
            continue
        for n in walk_no_nested(f):
            if isinstance(n, ast.If) and isinstance(n.test, ast.Compare) and 'checker.maximum' in ast.unparse(n.test.left) and isinstance(n.test.ops[0], (ast.Lt, ast.LtE)) \
                    and isinstance(n.test.comparators[0], ast.Constant):
                body_consts = [c.value for s in n.body for c in ast.walk(s) if isinstance(c, ast.Constant) and isinstance(c.value, str)]
                if any('encoder_append_uint8(encoder_p, src_p->{}length)' in c for c in body_consts):
                    k = n.test.comparators[0].value + (1 if isinstance(n.test.ops[0], ast.LtE) else 0)
                    ok = k == 128
                    ctx.instance('C10.R7', '%s: single-octet length form for maximum < %d' % (Model.qual(f), k), 'ok' if ok else 'VIOLATION', node=n, file=GEN)
                    if not ok:
                        ctx.violation('C10.R7', GEN, n, Model.qual(f),
                                      'the length is written as a single raw octet for maxima below %d; the OER short form covers 0..127 only (X.696 8.6), 128..255 need 0x81 <len>: '
                                      'the C encoder then differs from the Python codec and the C decoder misreads its output' % k, stmt='short-form threshold %d' % k)

    # ---- R9
    f = g.methods.get('format_sequence_additions')
    if f is None:
        raise AnalysisError('format_sequence_additions vanished')
    consts = [c.value for c in ast.walk(f) if isinstance(c, ast.Constant) and isinstance(c.value, str)]
    skip_loop = any('decoder_read_length_determinant(decoder_p);' in c and '=' in c for c in consts) and any('if (decoder_free(decoder_p, {}) < 0) {{' in c for c in consts)
    ctx.instance('C10.R9', 'unknown additions: read length determinant, then decoder_free(length), per unknown presence bit', 'ok' if skip_loop else 'VIOLATION', node=f, file=GEN)
    if not skip_loop:
        ctx.violation('C10.R9', GEN, f, Model.qual(f), 'additions of a newer version are no longer skipped by their length prefix', stmt='skip unknown additions')
    guards = [c for c in consts if re.search(r'if\s*\(\{\} (<= 1u|> 7u)\)', c)]
    ok = len(guards) >= 2
    ctx.instance('C10.R9', 'bitmap header guards: %s' % guards, 'ok' if ok else 'VIOLATION', node=f, file=GEN)
    if not ok:
        ctx.violation('C10.R9', GEN, f, Model.qual(f), 'the received bitmap length (> 1) and unused-bits (<= 7) fields must be range-checked before they are used in arithmetic', stmt='bitmap header guards')
    ok = any('({read} < {defined}u) ? {read} : {defined}u' in c for c in consts)
    ctx.instance('C10.R9', 'the bitmap copy is clamped to the declared mask size', 'ok' if ok else 'VIOLATION', node=f, file=GEN)
    if not ok:
        ctx.violation('C10.R9', GEN, f, Model.qual(f), 'the received bitmap is copied into the fixed-size mask without clamping to its size', stmt='bitmap copy clamp')


MUTANTS = [
    dict(name='octet string short form for maxima below 256', file=GEN, quick=True, old="        elif checker.maximum < 128:\n            encode_lines = [\n                'encoder_append_uint8(encoder_p, src_p->{}length);'",
         new="        elif checker.maximum < 256:\n            encode_lines = [\n                'encoder_append_uint8(encoder_p, src_p->{}length);'", expect='C10.R7'),
    dict(name='length determinant typo again', file=GEN, quick=True, old="    elif length < 16777216:\n        return 4", new="    elif length < 1677726:\n        return 4", expect='C10.R7'),
    dict(name='signed ranges use unsigned thresholds again', file=UTIL, quick=True,
         old="""            elif maximum > 127:
                maximum_length = 16""", new="""            elif maximum > 255:
                maximum_length = 16""", expect='C10.R7'),
    dict(name='OER decoder_read_bytes copies without the pos check', file=FUN,
         old="""    pos = decoder_free(self_p, size);

    if (pos >= 0) {
        (void)memcpy(buf_p, &self_p->buf_p[pos], size);
    } else {
        (void)memset(buf_p, 0, size);
    }""", new="""    pos = decoder_free(self_p, size);

    (void)memcpy(buf_p, &self_p->buf_p[pos], size);""", expect='C10.R1'),
    dict(name='octet string length guard dropped', file=GEN,
         old="""                'dst_p->{}length = decoder_read_length_determinant(decoder_p);'.format(
                    location),
                '',
                'if (dst_p->{}length > {}u) {{'.format(location, checker.maximum),
                '    decoder_abort(decoder_p, EBADLENGTH);',
                '',
                '    return;',
                '}',
                '',""", new="""                'dst_p->{}length = decoder_read_length_determinant(decoder_p);'.format(
                    location),
                '',""", expect='C10.R2'),
    dict(name='unknown additions not skipped', file=GEN,
         old="""            '    if (decoder_free(decoder_p, {}) < 0) {{'.format(unique_tmp_length),
            '',
            '        return;',
            '    }',""", new="", expect='C10.R9'),
    dict(name='C minimum_uint_length boundary moved', file=FUN, old="    if (value < 256u) {\n        length = 1;\n    } else if (value < 65536u) {\n        length = 2;\n    } else if (value < 16777216u) {\n        length = 3;\n    } else {\n        length = 4;",
         new="    if (value <= 256u) {\n        length = 1;\n    } else if (value < 65536u) {\n        length = 2;\n    } else if (value < 16777216u) {\n        length = 3;\n    } else {\n        length = 4;", expect='C10.R7'),
]
REFACTORS = []

MUTANTS.append(dict(name='oer decoder_read_int reads the low octets of a 3-octet value as a signed 16-bit number', file='asn1tools/source/c/oer_functions.py',
                    old="""        tmp = ((uint32_t)decoder_read_uint8(self_p) << 16u);
        tmp |= decoder_read_uint16(self_p);
        if((tmp & 0x800000u) == 0x800000u) {
            tmp += 0xff000000u;
        }
        value = (int32_t)tmp;""", new="""        value = (int32_t)decoder_read_int8(self_p) * 65536;
        value += decoder_read_int16(self_p);""", expect='C10.R10'))
MUTANTS.append(dict(name='oer length determinant long form starts at 129', file='asn1tools/source/c/oer_functions.py',
                    old="    if (length < 128u) {", new="    if (length < 129u) {", expect='C10.R10'))
MUTANTS.append(dict(name='presence mask buffers of equal size shared between nested SEQUENCEs', file=GEN,
                    old="""            unique_present_mask = self.add_unique_variable(fmt, 'present_mask')""",
                    new="""            if not hasattr(self, 'present_masks'):
                self.present_masks = {}
            if present_mask_length not in self.present_masks:
                self.present_masks[present_mask_length] = self.add_unique_variable(fmt, 'present_mask')
            unique_present_mask = self.present_masks[present_mask_length]""", expect='C10.R11'))

MUTANTS.append(dict(name='static ENUMERATED length from the Python value length (1 for -128..127)', file=GEN,
                    old="""    def get_encoded_enumerated_length(self, type_):
""", new="""    def get_encoded_enumerated_length(self, type_):
        value_lengths = sorted(set(self.get_enumerated_value_length(value) for value in type_.value_to_data))

        if value_lengths == [1]:
            return [1]

""", expect='C10.R7'))
