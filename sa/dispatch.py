"""E0 -- dispatch tables of the Compiler.compile_type / compile_implicit_type methods.

table(model, rel) -> DispatchTable with
   .cells   {ASN.1 type name: Cell(branch statements, constructor call, class, args)}
   .else_body, .tail (statements after the chain), .func
"""
import ast

from .model import AnalysisError, Model, ClassInfo, walk_no_nested


class Cell(object):
    def __init__(self, type_name, body, test):
        self.type_name = type_name
        self.body = body
        self.test = test
        self.ctor = None       # ast.Call assigned to `compiled`
        self.cls = None        # ClassInfo
        for s in body:
            for n in [s] + list(ast.walk(s)):
                if isinstance(n, ast.Assign) and any(isinstance(t, ast.Name) and t.id == 'compiled' for t in n.targets) \
                        and isinstance(n.value, ast.Call) and self.ctor is None:
                    self.ctor = n.value

    def arg_src(self):
        if self.ctor is None:
            return []
        return [ast.unparse(a) for a in self.ctor.args] + ['%s=%s' % (k.arg, ast.unparse(k.value)) for k in self.ctor.keywords]


class DispatchTable(object):
    def __init__(self, model, rel, func):
        self.model = model
        self.rel = rel
        self.func = func
        self.mod = model.mod(rel)
        self.cells = {}
        self.else_body = []
        self.tail = []
        self.var = None
        self._parse()

    def _dict_table(self, node):
        """Module-level dict display {'<type name>': <class>} that `node` (a Name) denotes -> ast.Dict or None"""
        if isinstance(node, ast.Name):
            r = self.mod.resolve_name(node.id)
            if isinstance(r, tuple) and r[0] == 'const' and isinstance(r[1], ast.Dict) and r[1].keys and \
                    all(isinstance(k, ast.Constant) and isinstance(k.value, str) for k in r[1].keys):
                return r[1], r[2]
        return None

    def _names_of_test(self, test):
        """type_name == 'X' | type_name in [..] | type_name in CONST | type_name in TABLE  -> (var, [names]) or None"""
        if isinstance(test, ast.Compare) and len(test.ops) == 1 and isinstance(test.left, ast.Name):
            op, rhs = test.ops[0], test.comparators[0]
            if isinstance(op, ast.Eq) and isinstance(rhs, ast.Constant) and isinstance(rhs.value, str):
                return test.left.id, [rhs.value]
            if isinstance(op, ast.In):
                v = self.model.try_literal(rhs, self.mod)
                if isinstance(v, (list, tuple, set)) and v and all(isinstance(x, str) for x in v):
                    return test.left.id, list(v)
                dt = self._dict_table(rhs)
                if dt is not None:
                    return test.left.id, [k.value for k in dt[0].keys]
        if isinstance(test, ast.BoolOp) and isinstance(test.op, ast.Or):
            names = []
            var = None
            for v in test.values:
                r = self._names_of_test(v)
                if r is None:
                    return None
                var = r[0]
                names.extend(r[1])
            return var, names
        return None

    def _parse(self):
        body = self.func.body
        chain = None
        for i, s in enumerate(body):
            if isinstance(s, ast.If) and self._names_of_test(s.test):
                n = 0
                t = s
                while isinstance(t, ast.If) and self._names_of_test(t.test):
                    n += 1
                    t = t.orelse[0] if len(t.orelse) == 1 and isinstance(t.orelse[0], ast.If) else None
                if n >= 3:
                    chain = s
                    self.tail = body[i + 1:]
                    break
        if chain is None:
            raise AnalysisError('no type dispatch chain found in %s' % Model.qual(self.func))
        t = chain
        while True:
            r = self._names_of_test(t.test)
            if r is None:
                # first test that is not on the type name (e.g. `type_name in self.types_backtrace`): rest is the else part
                self.else_body = [t]
                break
            var, names = r
            self.var = var
            for nm in names:
                if nm not in self.cells:      # first match wins in an elif chain
                    self.cells[nm] = Cell(nm, t.body, t.test)
            if len(t.orelse) == 1 and isinstance(t.orelse[0], ast.If):
                t = t.orelse[0]
            else:
                self.else_body = t.orelse
                break
        for c in self.cells.values():
            if c.ctor is not None:
                c.cls = self._class_of(c.ctor.func, c)

    def _class_of(self, fn, cell, depth=0):
        """Class constructed by `fn(...)` in this cell: a class name, TABLE[type_name], TABLE.get(type_name, Default),
        or a local bound to one of those."""
        if depth > 3:
            return None
        if isinstance(fn, (ast.Name, ast.Attribute)):
            r = self.mod.resolve(fn)
            if isinstance(r, ClassInfo):
                return r
        if isinstance(fn, ast.Subscript):
            dt = self._dict_table(fn.value)
            if dt is not None and isinstance(fn.slice, ast.Name) and fn.slice.id == self.var:
                for k, v in zip(dt[0].keys, dt[0].values):
                    if k.value == cell.type_name:
                        r = dt[1].resolve(v) if isinstance(v, (ast.Name, ast.Attribute)) else None
                        return r if isinstance(r, ClassInfo) else None
                return None
        if isinstance(fn, ast.Call) and isinstance(fn.func, ast.Attribute) and fn.func.attr == 'get' and fn.args:
            dt = self._dict_table(fn.func.value)
            if dt is not None and isinstance(fn.args[0], ast.Name) and fn.args[0].id == self.var:
                for k, v in zip(dt[0].keys, dt[0].values):
                    if k.value == cell.type_name:
                        r = dt[1].resolve(v) if isinstance(v, (ast.Name, ast.Attribute)) else None
                        return r if isinstance(r, ClassInfo) else None
                if len(fn.args) > 1:
                    return self._class_of(fn.args[1], cell, depth + 1)
                return None
        if isinstance(fn, ast.Name):
            # a local bound in the branch
            for s in cell.body:
                for n in ast.walk(s):
                    if isinstance(n, ast.Assign) and any(isinstance(t, ast.Name) and t.id == fn.id for t in n.targets):
                        return self._class_of(n.value, cell, depth + 1)
        return None


CODEC_DISPATCH = {
    'ber': ('asn1tools/codecs/ber.py', 'Compiler.compile_implicit_type'),
    'der': ('asn1tools/codecs/der.py', 'Compiler.compile_implicit_type'),
    'per': ('asn1tools/codecs/per.py', 'Compiler.compile_type'),
    'uper': ('asn1tools/codecs/uper.py', 'Compiler.compile_type'),
    'oer': ('asn1tools/codecs/oer.py', 'Compiler.compile_type'),
    'jer': ('asn1tools/codecs/jer.py', 'Compiler.compile_type'),
    'xer': ('asn1tools/codecs/xer.py', 'Compiler.compile_type'),
    'gser': ('asn1tools/codecs/gser.py', 'Compiler.compile_type'),
    'type_checker': ('asn1tools/codecs/type_checker.py', 'Compiler.compile_type'),
    'constraints_checker': ('asn1tools/codecs/constraints_checker.py', 'Compiler.compile_type'),
}


def table(model, codec):
    rel, qual = CODEC_DISPATCH[codec]
    return DispatchTable(model, rel, model.func(rel, qual))
