"""E0 -- dispatch tables of the Compiler.compile_type / compile_implicit_type methods.

table(model, rel) -> DispatchTable with
   .cells   {ASN.1 type name: Cell(branch statements, constructor call, class, args)}
   .else_body, .tail (statements after the chain), .func
"""
import ast

from .model import AnalysisError, Model, ClassInfo, walk_no_nested


class Cell(object):
    def __init__(self, type_name, body, test):
        self.type_name = type_name
        self.body = body
        self.test = test
        self.ctor = None       # ast.Call assigned to `compiled`
        self.cls = None        # ClassInfo
        for s in body:
            for n in [s] + list(ast.walk(s)):
                if isinstance(n, ast.Assign) and any(isinstance(t, ast.Name) and t.id == 'compiled' for t in n.targets) \
                        and isinstance(n.value, ast.Call) and self.ctor is None:
                    self.ctor = n.value

    def arg_src(self):
        if self.ctor is None:
            return []
        return [ast.unparse(a) for a in self.ctor.args] + ['%s=%s' % (k.arg, ast.unparse(k.value)) for k in self.ctor.keywords]


class DispatchTable(object):
    def __init__(self, model, rel, func):
        self.model = model
        self.rel = rel
        self.func = func
        self.mod = model.mod(rel)
        self.cells = {}
        self.else_body = []
        self.tail = []
        self.var = None
        self._parse()

    def _names_of_test(self, test):
        """type_name == 'X' | type_name in [..] | type_name in CONST  -> (var, [names]) or None"""
        if isinstance(test, ast.Compare) and len(test.ops) == 1 and isinstance(test.left, ast.Name):
            op, rhs = test.ops[0], test.comparators[0]
            if isinstance(op, ast.Eq) and isinstance(rhs, ast.Constant) and isinstance(rhs.value, str):
                return test.left.id, [rhs.value]
            if isinstance(op, ast.In):
                v = self.model.try_literal(rhs, self.mod)
                if isinstance(v, (list, tuple, set)) and all(isinstance(x, str) for x in v):
                    return test.left.id, list(v)
        return None

    def _parse(self):
        body = self.func.body
        chain = None
        for i, s in enumerate(body):
            if isinstance(s, ast.If) and self._names_of_test(s.test):
                # the dispatch chain is the longest if/elif chain on type_name
                n = 0
                t = s
                while isinstance(t, ast.If) and self._names_of_test(t.test):
                    n += 1
                    t = t.orelse[0] if len(t.orelse) == 1 and isinstance(t.orelse[0], ast.If) else None
                if n >= 8:
                    chain = s
                    self.tail = body[i + 1:]
                    break
        if chain is None:
            raise AnalysisError('no type dispatch chain found in %s' % Model.qual(self.func))
        t = chain
        while True:
            r = self._names_of_test(t.test)
            if r is None:
                raise AnalysisError('dispatch chain of %s has a non-type-name test: %s' % (Model.qual(self.func), ast.unparse(t.test)))
            var, names = r
            self.var = var
            for nm in names:
                if nm not in self.cells:      # first match wins in an elif chain
                    self.cells[nm] = Cell(nm, t.body, t.test)
            if len(t.orelse) == 1 and isinstance(t.orelse[0], ast.If) and self._names_of_test(t.orelse[0].test):
                t = t.orelse[0]
            else:
                self.else_body = t.orelse
                break
        for c in self.cells.values():
            if c.ctor is not None:
                r = self.mod.resolve(c.ctor.func) if isinstance(c.ctor.func, (ast.Name, ast.Attribute)) else None
                if isinstance(r, ClassInfo):
                    c.cls = r


CODEC_DISPATCH = {
    'ber': ('asn1tools/codecs/ber.py', 'Compiler.compile_implicit_type'),
    'der': ('asn1tools/codecs/der.py', 'Compiler.compile_implicit_type'),
    'per': ('asn1tools/codecs/per.py', 'Compiler.compile_type'),
    'uper': ('asn1tools/codecs/uper.py', 'Compiler.compile_type'),
    'oer': ('asn1tools/codecs/oer.py', 'Compiler.compile_type'),
    'jer': ('asn1tools/codecs/jer.py', 'Compiler.compile_type'),
    'xer': ('asn1tools/codecs/xer.py', 'Compiler.compile_type'),
    'gser': ('asn1tools/codecs/gser.py', 'Compiler.compile_type'),
    'type_checker': ('asn1tools/codecs/type_checker.py', 'Compiler.compile_type'),
    'constraints_checker': ('asn1tools/codecs/constraints_checker.py', 'Compiler.compile_type'),
}


def table(model, codec):
    rel, qual = CODEC_DISPATCH[codec]
    return DispatchTable(model, rel, model.func(rel, qual))
