"""E0 -- dispatch tables of the Compiler.compile_type / compile_implicit_type methods.

table(model, rel) -> DispatchTable with
   .cells   {ASN.1 type name: Cell(branch statements, constructor call, class, args)}
   .else_body, .tail (statements after the chain), .func
"""
import ast

from .model import AnalysisError, Model, Module, ClassInfo, walk_no_nested


class Cell(object):
    def __init__(self, type_name, body, test):
        self.type_name = type_name
        self.body = body
        self.test = test
        self.ctor = None       # ast.Call assigned to `compiled`
        self.cls = None        # ClassInfo
        for s in body:
            for n in [s] + list(ast.walk(s)):
                if isinstance(n, ast.Assign) and any(isinstance(t, ast.Name) and t.id == 'compiled' for t in n.targets) \
                        and isinstance(n.value, ast.Call) and self.ctor is None:
                    self.ctor = n.value

    def arg_src(self):
        if self.ctor is None:
            return []
        return [ast.unparse(a) for a in self.ctor.args] + ['%s=%s' % (k.arg, ast.unparse(k.value)) for k in self.ctor.keywords]


class DispatchTable(object):
    def __init__(self, model, rel, func):
        self.model = model
        self.rel = rel
        self.func = func
        self.mod = model.mod(rel)
        self.cells = {}
        self.else_body = []
        self.tail = []
        self.var = None
        self._parse()

    def _dict_table(self, node):
        """Module-level dict display {'<type name>': <class>} that `node` (a Name) denotes -> ast.Dict or None"""
        if isinstance(node, ast.Name):
            r = self.mod.resolve_name(node.id)
            if isinstance(r, tuple) and r[0] == 'const' and isinstance(r[1], ast.Dict) and r[1].keys and \
                    all(isinstance(k, ast.Constant) and isinstance(k.value, str) for k in r[1].keys):
                return r[1], r[2]
        return None

    def _names_of_test(self, test):
        """type_name == 'X' | type_name in [..] | type_name in CONST | type_name in TABLE  -> (var, [names]) or None"""
        if isinstance(test, ast.Compare) and len(test.ops) == 1 and isinstance(test.left, ast.Name):
            op, rhs = test.ops[0], test.comparators[0]
            if isinstance(op, ast.Eq) and isinstance(rhs, ast.Constant) and isinstance(rhs.value, str):
                return test.left.id, [rhs.value]
            if isinstance(op, ast.In):
                v = self.model.try_literal(rhs, self.mod)
                if isinstance(v, (list, tuple, set)) and v and all(isinstance(x, str) for x in v):
                    return test.left.id, list(v)
                dt = self._dict_table(rhs)
                if dt is not None:
                    return test.left.id, [k.value for k in dt[0].keys]
        if isinstance(test, ast.BoolOp) and isinstance(test.op, ast.Or):
            names = []
            var = None
            for v in test.values:
                r = self._names_of_test(v)
                if r is None:
                    return None
                var = r[0]
                names.extend(r[1])
            return var, names
        return None

    def _parse(self):
        body = self.func.body
        chain = None
        for i, s in enumerate(body):
            if isinstance(s, ast.If) and self._names_of_test(s.test):
                n = 0
                t = s
                while isinstance(t, ast.If) and self._names_of_test(t.test):
                    n += 1
                    t = t.orelse[0] if len(t.orelse) == 1 and isinstance(t.orelse[0], ast.If) else None
                if n >= 3:
                    chain = s
                    self.tail = body[i + 1:]
                    break
        if chain is None:
            self._parse_semantic()
            return
        t = chain
        while True:
            r = self._names_of_test(t.test)
            if r is None:
                # first test that is not on the type name (e.g. `type_name in self.types_backtrace`): rest is the else part
                self.else_body = [t]
                break
            var, names = r
            self.var = var
            for nm in names:
                if nm not in self.cells:      # first match wins in an elif chain
                    self.cells[nm] = Cell(nm, t.body, t.test)
            if len(t.orelse) == 1 and isinstance(t.orelse[0], ast.If):
                t = t.orelse[0]
            else:
                self.else_body = t.orelse
                break
        for c in self.cells.values():
            if c.ctor is not None:
                c.cls = self._class_of(c.ctor.func, c)
                if c.cls is None:
                    r = self._factory(c.ctor, c)
                    if r is not None:
                        c.ctor, c.cls = r
        if sum(1 for c in self.cells.values() if c.cls is not None) < max(10, len(self.cells) // 2):
            # the chain tests type names but the classes come from somewhere else (a table looked up before the chain)
            self.cells, self.else_body, self.tail = {}, [], []
            self._parse_semantic()

    # ------------------------------------------------------------------ semantic mode
    def _class_tables(self, cls):
        """{attribute: ast node} for the class-level attributes of the compiler class (MRO), with the class-body statements
        `X = dict(<other table>)` and `X.update({...})` evaluated, and every Name marked with the module that defines it."""
        out = {}
        for c in reversed(cls.mro()):
            if not hasattr(c, 'node') or c.mod.rel.startswith('<'):
                continue
            for st in c.node.body:
                if isinstance(st, ast.Assign) and len(st.targets) == 1 and isinstance(st.targets[0], ast.Name):
                    v = self._table_value(st.value, c, out)
                    if v is not None:
                        out[st.targets[0].id] = v
                elif isinstance(st, ast.Expr) and isinstance(st.value, ast.Call) and isinstance(st.value.func, ast.Attribute) and st.value.func.attr == 'update' \
                        and isinstance(st.value.func.value, ast.Name) and st.value.func.value.id in out and st.value.args:
                    base = out[st.value.func.value.id]
                    upd = self._table_value(st.value.args[0], c, out)
                    if isinstance(base, ast.Dict) and isinstance(upd, ast.Dict):
                        keys = [k.value for k in base.keys if isinstance(k, ast.Constant)]
                        nk, nv = list(base.keys), list(base.values)
                        for k, v in zip(upd.keys, upd.values):
                            if isinstance(k, ast.Constant) and k.value in keys:
                                nv[keys.index(k.value)] = v
                            else:
                                nk.append(k)
                                nv.append(v)
                        out[st.value.func.value.id] = ast.Dict(keys=nk, values=nv)
        return out

    def _table_value(self, v, c, known):
        from . import sem
        if isinstance(v, (ast.Dict, ast.Tuple, ast.List, ast.Name, ast.Constant)):
            v = sem.clone(v)
            for x in ast.walk(v):
                if isinstance(x, ast.Name):
                    x._defmod = c.mod
            return v
        if isinstance(v, ast.Call) and isinstance(v.func, ast.Name) and v.func.id == 'dict' and len(v.args) == 1:
            a = v.args[0]
            if isinstance(a, ast.Name) and a.id in known:
                return sem.clone(known[a.id])
            if isinstance(a, ast.Attribute):
                # <module>.<Class>.<TABLE>
                owner = c.mod.resolve(a.value)
                if isinstance(owner, ClassInfo):
                    ent = DispatchTable._tables_cache.get(id(owner))
                    t = ent[1] if ent is not None and ent[0] is owner else None
                    if t is None:
                        t = self._class_tables(owner)
                        DispatchTable._tables_cache[id(owner)] = (owner, t)     # the class is kept alive with its tables: ids are reused
                    if a.attr in t:
                        return sem.clone(t[a.attr])
            return self._table_value(a, c, known) if isinstance(a, ast.Dict) else None
        return None

    _tables_cache = {}
    _modtab_cache = {}

    def _module_tables(self, mod):
        """{name: display node} of the module-level tables of `mod`, with `X = dict(<other table>)` and `X.update({...})`
        statements of the module body evaluated in order; Names are marked with the module that defines them."""
        key = id(mod)
        if key in DispatchTable._modtab_cache and DispatchTable._modtab_cache[key][0] is mod:
            return DispatchTable._modtab_cache[key][1]
        from . import sem
        out = {}
        DispatchTable._modtab_cache[key] = (mod, out)

        def value_of(v):
            if isinstance(v, (ast.Dict, ast.Tuple, ast.List, ast.Set)):
                v = sem.clone(v)
                for x in ast.walk(v):
                    if isinstance(x, ast.Name):
                        x._defmod = mod
                return v
            if isinstance(v, ast.Name) and v.id in out:
                return sem.clone(out[v.id])
            if isinstance(v, ast.Attribute):
                owner = mod.resolve(v.value)
                if isinstance(owner, Module):
                    t = self._module_tables(owner)
                    return sem.clone(t[v.attr]) if v.attr in t else None
                if isinstance(owner, ClassInfo):
                    t = self._class_tables(owner)
                    return sem.clone(t[v.attr]) if v.attr in t else None
            if isinstance(v, ast.Call) and isinstance(v.func, ast.Name) and v.func.id in ('dict', 'list', 'tuple') and len(v.args) == 1:
                return value_of(v.args[0])
            return None
        for st in mod.tree.body:
            if isinstance(st, ast.Assign) and len(st.targets) == 1 and isinstance(st.targets[0], ast.Name):
                v = value_of(st.value)
                if v is not None:
                    out[st.targets[0].id] = v
            elif isinstance(st, ast.Expr) and isinstance(st.value, ast.Call) and isinstance(st.value.func, ast.Attribute) and st.value.func.attr == 'update' \
                    and isinstance(st.value.func.value, ast.Name) and st.value.func.value.id in out and st.value.args:
                base, upd = out[st.value.func.value.id], value_of(st.value.args[0])
                if isinstance(base, ast.Dict) and isinstance(upd, ast.Dict):
                    keys = [k.value if isinstance(k, ast.Constant) else None for k in base.keys]
                    nk, nv = list(base.keys), list(base.values)
                    for k, v in zip(upd.keys, upd.values):
                        if isinstance(k, ast.Constant) and k.value in keys:
                            nv[keys.index(k.value)] = v
                        else:
                            nk.append(k)
                            nv.append(v)
                    out[st.value.func.value.id] = ast.Dict(keys=nk, values=nv)
        return out

    def _parse_semantic(self):
        """No if-chain of the classic form: the dispatch is table driven and/or spread over helper methods.  For every ASN.1
        type name that occurs as a key / comparand the compile method is partially evaluated (sa/sem.py with folding of
        class-level tables, literal look-ups, getattr(self, '<name>') and inlining of the helper methods it delegates to);
        the constructor call it returns for that name is the cell."""
        from . import sem, flow
        cls = self.func._cls
        if cls is None:
            raise AnalysisError('no type dispatch chain found in %s' % Model.qual(self.func))
        # the concrete compiler class of this codec module (a subclass may only override the tables)
        comp = self.mod.classes.get('Compiler') or cls
        tables = self._class_tables(comp)
        for k_, v_ in list(tables.items()):
            if isinstance(v_, ast.Name):
                dm_ = getattr(v_, '_defmod', None) or self.func._mod
                tv_ = self._module_tables(dm_).get(v_.id)
                if tv_ is not None:
                    tables[k_] = sem.clone(tv_)
        fmod = self.func._mod
        params = flow.param_names(self.func)
        td = params[2] if len(params) > 2 else 'type_descriptor'

        def resolver(call):
            fn = call.func
            if isinstance(fn, ast.Attribute) and isinstance(fn.value, ast.Name) and fn.value.id == 'self':
                r = comp.find_method(fn.attr)
                return r[1] if r else None
            return None

        # universe of type names
        names = []
        seen_f = set()

        def collect(f, depth=0):
            if id(f) in seen_f or depth > 3:
                return
            seen_f.add(id(f))
            for n in walk_no_nested(f):
                if isinstance(n, ast.Compare) and len(n.ops) == 1 and isinstance(n.ops[0], (ast.Eq, ast.In)):
                    for side in (n.left, n.comparators[0]):
                        if isinstance(side, ast.Constant) and isinstance(side.value, str):
                            names.append(side.value)
                        elif isinstance(side, (ast.List, ast.Tuple, ast.Set)):
                            names.extend(x.value for x in side.elts if isinstance(x, ast.Constant) and isinstance(x.value, str))
                # every table of type names the method refers to: class attributes and module-level constants
                tab_ = None
                if isinstance(n, ast.Attribute) and isinstance(n.value, ast.Name) and n.value.id == 'self' and n.attr in tables:
                    tab_ = tables[n.attr]
                elif isinstance(n, ast.Name) and isinstance(n.ctx, ast.Load) and n.id in self._module_tables(f._mod):
                    tab_ = self._module_tables(f._mod)[n.id]
                if isinstance(tab_, ast.Dict):
                    names.extend(k.value for k in tab_.keys if isinstance(k, ast.Constant) and isinstance(k.value, str))
                elif isinstance(tab_, (ast.List, ast.Tuple, ast.Set)):
                    names.extend(x.value for x in tab_.elts if isinstance(x, ast.Constant) and isinstance(x.value, str))
                if isinstance(n, ast.Call) and isinstance(n.func, ast.Attribute) and isinstance(n.func.value, ast.Name) and n.func.value.id == 'self':
                    r = comp.find_method(n.func.attr)
                    if r and r[1].name.startswith('compile'):
                        collect(r[1], depth + 1)
        collect(self.func)
        names = [n for n in dict.fromkeys(names) if n and (n[0].isupper())]
        if len(names) < 10:
            raise AnalysisError('no type dispatch found in %s (only %d type names)' % (Model.qual(self.func), len(names)))
        self.var = "%s['type']" % td
        self.tail = [st for st in self.func.body if isinstance(st, ast.If) and isinstance(st.test, ast.Compare) and isinstance(st.test.ops[0], ast.In)
                     and isinstance(st.test.left, ast.Constant) and isinstance(st.test.comparators[0], ast.Name) and st.test.comparators[0].id == td]
        # module-level tables are folded as well
        modtabs = self._module_tables(fmod)
        for T in names:
            def rewrite(node, T=T):
                if isinstance(node, ast.Subscript) and isinstance(node.value, ast.Name) and node.value.id == td and isinstance(node.slice, ast.Constant) and node.slice.value == 'type':
                    return ast.Constant(T)
                if isinstance(node, ast.Name) and isinstance(node.ctx, ast.Load):
                    dm = getattr(node, '_defmod', None)
                    if (dm is None or dm is fmod) and node.id in modtabs:
                        return sem.clone(modtabs[node.id])
                    if dm is not None and dm is not fmod:
                        tv = self._module_tables(dm).get(node.id)
                        if tv is not None:
                            return sem.clone(tv)
                return None
            folder = sem._Fold(attr_resolver=lambda a: tables.get(a), rewrite=rewrite)
            try:
                ps = sem._Exec(self.func, max_paths=400, resolver=resolver, folder=folder).run()
            except sem.TooManyPaths:
                continue
            best = None
            for p in ps:
                if p.outcome[0] != 'return' or len(p.outcome) < 4:
                    continue
                e = p.outcome[3]
                ctor = self._find_ctor(e)
                if ctor is None:
                    continue
                if best is None or len(p.conds) < best[0]:
                    best = (len(p.conds), ctor, e)
            if best is None:
                continue
            ctor = best[1]
            cell = Cell(T, [ast.Expr(value=ctor)], None)
            cell.ctor = ctor
            if not hasattr(ctor, 'lineno'):
                ctor.lineno = self.func.lineno
                ctor.col_offset = 0
            cell.cls = self._ctor_class(ctor.func)
            self.cells[T] = cell
        if len(self.cells) < 10:
            raise AnalysisError('type dispatch of %s could not be evaluated (%d cells)' % (Model.qual(self.func), len(self.cells)))

    def _ctor_class(self, fn):
        if isinstance(fn, ast.Name):
            m = getattr(fn, '_defmod', None) or self.func._mod
            r = m.resolve_name(fn.id)
            return r if isinstance(r, ClassInfo) else None
        if isinstance(fn, ast.Attribute):
            r = self.func._mod.resolve(fn)
            return r if isinstance(r, ClassInfo) else None
        return None

    def _find_ctor(self, e, depth=0):
        """the constructor call that produces the compiled object in expression e: e itself, or the first argument of the
        wrapping helper calls applied to it afterwards (set_compiled_tag(<ctor>, ..), self.copy(<ctor>))"""
        if depth > 4 or not isinstance(e, ast.Call):
            return None
        if self._ctor_class(e.func) is not None:
            return e
        # self.factory(Class, args..): a method all of whose returns construct the class it is handed
        if isinstance(e.func, ast.Attribute) and isinstance(e.func.value, ast.Name) and e.func.value.id == 'self' and getattr(self.func, '_cls', None) is not None:
            r0 = self.func._cls.find_method(e.func.attr)
            if r0 is not None:
                h = r0[1]
                hp = [a.arg for a in h.args.args][1:]
                bind = dict(zip(hp, e.args))
                for k in e.keywords:
                    if k.arg:
                        bind[k.arg] = k.value
                rets = [n for n in ast.walk(h) if isinstance(n, ast.Return) and n.value is not None]
                if rets and all(isinstance(r_.value, ast.Call) and isinstance(r_.value.func, ast.Name) and r_.value.func.id in bind
                                and self._ctor_class(bind[r_.value.func.id]) is not None for r_ in rets):
                    from . import sem
                    rv = rets[0].value
                    env = {k: v for k, v in bind.items()}
                    call = sem.subst(rv, env)
                    if isinstance(call, ast.Call) and self._ctor_class(call.func) is not None:
                        return call
        for a in e.args[:1]:
            r = self._find_ctor(a, depth + 1)
            if r is not None:
                return r
        return None

    def _factory(self, e, cell):
        """`self.factory(<class expression>, args..)` where every return of the method constructs the class it is handed:
        -> (the constructor call with the arguments substituted, the class) or None"""
        if not (isinstance(e, ast.Call) and isinstance(e.func, ast.Attribute) and isinstance(e.func.value, ast.Name) and e.func.value.id == 'self'):
            return None
        owner = getattr(self.func, '_cls', None)
        r0 = owner.find_method(e.func.attr) if owner is not None else None
        if r0 is None:
            return None
        h = r0[1]
        hp = [a.arg for a in h.args.args][1:]
        bind = dict(zip(hp, e.args))
        for k in e.keywords:
            if k.arg:
                bind[k.arg] = k.value
        rets = [n for n in ast.walk(h) if isinstance(n, ast.Return) and n.value is not None]
        if not rets or not all(isinstance(r_.value, ast.Call) and isinstance(r_.value.func, ast.Name) and r_.value.func.id in bind for r_ in rets):
            return None
        pn = rets[0].value.func.id
        if any(r_.value.func.id != pn for r_ in rets):
            return None
        cls = self._class_of(bind[pn], cell)
        if cls is None:
            return None
        from . import sem
        call = sem.subst(rets[0].value, dict(bind))
        if not isinstance(call, ast.Call):
            return None
        call.lineno, call.col_offset = getattr(e, 'lineno', self.func.lineno), getattr(e, 'col_offset', 0)
        return call, cls

    def _class_of(self, fn, cell, depth=0):
        """Class constructed by `fn(...)` in this cell: a class name, TABLE[type_name], TABLE.get(type_name, Default),
        or a local bound to one of those."""
        if depth > 3:
            return None
        if isinstance(fn, (ast.Name, ast.Attribute)):
            r = self.mod.resolve(fn)
            if isinstance(r, ClassInfo):
                return r
        if isinstance(fn, ast.Subscript):
            dt = self._dict_table(fn.value)
            if dt is not None and isinstance(fn.slice, ast.Name) and fn.slice.id == self.var:
                for k, v in zip(dt[0].keys, dt[0].values):
                    if k.value == cell.type_name:
                        r = dt[1].resolve(v) if isinstance(v, (ast.Name, ast.Attribute)) else None
                        return r if isinstance(r, ClassInfo) else None
                return None
        if isinstance(fn, ast.Call) and isinstance(fn.func, ast.Attribute) and fn.func.attr == 'get' and fn.args:
            dt = self._dict_table(fn.func.value)
            if dt is not None and isinstance(fn.args[0], ast.Name) and fn.args[0].id == self.var:
                for k, v in zip(dt[0].keys, dt[0].values):
                    if k.value == cell.type_name:
                        r = dt[1].resolve(v) if isinstance(v, (ast.Name, ast.Attribute)) else None
                        return r if isinstance(r, ClassInfo) else None
                if len(fn.args) > 1:
                    return self._class_of(fn.args[1], cell, depth + 1)
                return None
        if isinstance(fn, ast.Name):
            # a local bound in the branch
            for s in cell.body:
                for n in ast.walk(s):
                    if isinstance(n, ast.Assign) and any(isinstance(t, ast.Name) and t.id == fn.id for t in n.targets):
                        return self._class_of(n.value, cell, depth + 1)
        return None


CODEC_DISPATCH = {
    'ber': ('asn1tools/codecs/ber.py', 'Compiler.compile_implicit_type'),
    'der': ('asn1tools/codecs/der.py', 'Compiler.compile_implicit_type'),
    'per': ('asn1tools/codecs/per.py', 'Compiler.compile_type'),
    'uper': ('asn1tools/codecs/uper.py', 'Compiler.compile_type'),
    'oer': ('asn1tools/codecs/oer.py', 'Compiler.compile_type'),
    'jer': ('asn1tools/codecs/jer.py', 'Compiler.compile_type'),
    'xer': ('asn1tools/codecs/xer.py', 'Compiler.compile_type'),
    'gser': ('asn1tools/codecs/gser.py', 'Compiler.compile_type'),
    'type_checker': ('asn1tools/codecs/type_checker.py', 'Compiler.compile_type'),
    'constraints_checker': ('asn1tools/codecs/constraints_checker.py', 'Compiler.compile_type'),
}


def table(model, codec):
    rel, qual = CODEC_DISPATCH[codec]
    cname, mname = qual.split('.')
    cls = model.mod(rel).classes.get(cname)
    if cls is None:
        raise AnalysisError('anchor %s::%s vanished' % (rel, cname))
    r = cls.find_method(mname)       # possibly inherited (a codec that only overrides the tables of its parent)
    if r is None:
        raise AnalysisError('anchor %s::%s vanished' % (rel, qual))
    return DispatchTable(model, rel, r[1])
