"""Copy discipline of the compilers (E2 instantiation used by C19.R1 and C11.R7).

Compiled type objects are cached (`compile_user_type` -> `get_compiled_type`) and therefore
shared between every reference to the same named type.  A compiler method may configure a
compiled object (call a `set_*` mutator on it, or store one of its attributes) only when the
object is *owned*: the binding that reaches the mutation is a constructor call or
`self.copy(x)` / `copy(x)`.
"""
import ast

from .model import Model, ClassInfo, walk_no_nested, norm_stmt
from . import flow

# attributes that only label an object for messages (read by type_label/__repr__/errors)
METADATA_ATTRS = {'type_name', 'module_name'}
CONFIG_MUTATORS = ('set_default', 'set_tag', 'set_size_range', 'set_restricted_to_range', 'set_range')
# (set_inner_type links the per-reference Recursive placeholders after compilation: by design, not a configuration of a cached type)


def _last_dominating_binding(name, f, at):
    best = None
    child = at
    p = getattr(at, '_parent', None)
    while p is not None:
        for field in ('body', 'orelse', 'finalbody'):
            seq = getattr(p, field, None)
            if isinstance(seq, list) and child in seq:
                for st in seq[:seq.index(child)]:
                    if isinstance(st, ast.Assign) and any(isinstance(t, ast.Name) and t.id == name for t in st.targets):
                        if best is None or (st.lineno, st.col_offset) > (best.lineno, best.col_offset):
                            best = st
        if p is f:
            break
        child = p
        p = getattr(p, '_parent', None)
    return best


def _is_owning_expr(e, f, _depth=0):
    """constructor call, copy()/self.copy()/deepcopy()"""
    if not isinstance(e, ast.Call):
        return False
    fn = e.func
    src = ast.unparse(fn)
    if src in ('copy', 'deepcopy', 'self.copy', 'copy.copy', 'copy.deepcopy'):
        return True
    r = f._mod.resolve(fn) if isinstance(fn, (ast.Name, ast.Attribute)) else None
    if isinstance(r, ClassInfo):
        return True
    # a class taken from a class-level table of the compiler and called at once:  self.TYPES[kind](name, ...)
    if isinstance(fn, ast.Subscript) and isinstance(fn.value, ast.Attribute) and isinstance(fn.value.value, ast.Name) and fn.value.value.id in ('self', 'cls') and fn.value.attr.isupper():
        tab = f._cls.find_attr(fn.value.attr) if getattr(f, '_cls', None) is not None and hasattr(f._cls, 'find_attr') else None
        if tab is not None:
            tv = tab[1]
            vals = list(tv.values) if isinstance(tv, ast.Dict) else None
            if vals is None:
                return True           # a table built by dict(...) / update(...): its entries are the classes of the codec
            res = [f._mod.resolve(v) if isinstance(v, (ast.Name, ast.Attribute)) else None for v in vals]
            if vals and all(isinstance(r_, ClassInfo) for r_ in res):
                return True
    # a class taken from a class-level table of the compiler:  cls, flag = self.MEMBERS_TYPES[kind]; return cls(name, ...)
    if isinstance(fn, ast.Name):
        for a in walk_no_nested(f):
            if isinstance(a, ast.Assign) and any(fn.id in flow.target_names(t) for t in a.targets):
                v = a.value
                if isinstance(v, ast.Subscript) and isinstance(v.value, ast.Attribute) and isinstance(v.value.value, ast.Name) and v.value.value.id in ('self', 'cls') \
                        and v.value.attr.isupper():
                    return True
    # a factory method of the same compiler: every value it returns is itself owning (two levels)
    if _depth < 2 and isinstance(fn, ast.Attribute) and isinstance(fn.value, ast.Name) and fn.value.id == 'self' and getattr(f, '_cls', None) is not None:
        rr = f._cls.find_method(fn.attr)
        if rr is not None and rr[1] is not f:
            g = rr[1]
            rets = [x for x in walk_no_nested(g) if isinstance(x, ast.Return)]
            if rets and all(x.value is not None and _is_owning_expr(x.value, g, _depth + 1) for x in rets):
                return True
    return False


def _owning(e, f):
    """constructor call, copy()/self.copy()/deepcopy() -- looking through conditional expressions"""
    if isinstance(e, ast.IfExp):
        return _owning(e.body, f) and _owning(e.orelse, f)
    return _is_owning_expr(e, f)


def sites(model, rels):
    """Yield (f, node, var, what, owned, why) for every configuration of a compiled object in the Compiler classes of the given
    modules.  Ownership is decided on the path summaries (sa/sem.py): on every path that reaches the configuration, the object
    configured is the result of a constructor or of copy()/self.copy() -- whatever the nesting of the tests that led to the copy
    (`if 'optional' in m or 'default' in m: x = self.copy(x)` owns x under `'optional' in m` as well)."""
    from . import sem
    for rel in rels:
        m = model.mod(rel)
        for c in m.classes.values():
            if c.name != 'Compiler':
                continue
            for f in c.methods.values():
                cand = []
                for n in walk_no_nested(f):
                    var = None
                    what = None
                    if isinstance(n, ast.Call) and isinstance(n.func, ast.Attribute) and n.func.attr in CONFIG_MUTATORS \
                            and isinstance(n.func.value, ast.Name) and n.func.value.id not in ('self',):
                        var = n.func.value.id
                        what = '%s.%s()' % (var, n.func.attr)
                    elif isinstance(n, ast.Assign):
                        for t in n.targets:
                            if isinstance(t, ast.Attribute) and isinstance(t.value, ast.Name) and t.value.id not in ('self',) \
                                    and t.attr not in METADATA_ATTRS:
                                var = t.value.id
                                what = '%s.%s = ...' % (var, t.attr)
                    if var is not None:
                        cand.append((n, var, what))
                if not cand:
                    continue
                ps = sem.paths(f)
                allp = sem.with_loop_bodies(ps) if ps is not None else None
                for n, var, what in cand:
                    decided = False
                    if allp is not None:
                        recvs = []
                        for p in allp:
                            for ev in p.events:
                                if isinstance(n, ast.Call) and ev[0] == 'call' and ev[2] is n and isinstance(ev[3].func, ast.Attribute):
                                    recvs.append(ev[3].func.value)
                                elif isinstance(n, ast.Assign) and ev[0] == 'store' and ev[2] is n and len(ev) > 5 and isinstance(ev[5], ast.Attribute):
                                    recvs.append(ev[5].value)
                        if recvs:
                            decided = True
                            bad = [r for r in recvs if not _owning(r, f)]
                            owned = not bad
                            if owned:
                                why = 'on all %d paths the object is %s' % (len(recvs), sem.ctext(recvs[0])[:60])
                            else:
                                b = bad[0]
                                if isinstance(b, ast.Name) and b.id.split('@')[0] in flow.param_names(f):
                                    why = '%s is a parameter (caller-owned object)' % b.id
                                else:
                                    why = 'on a path that reaches it the object is %s, neither constructed nor copied here' % sem.ctext(b)[:80]
                    if not decided:
                        st = Model.enclosing_stmt(n)
                        dom = _last_dominating_binding(var, f, st)
                        if dom is not None:
                            owned = _is_owning_expr(dom.value, f)
                            why = 'reaching binding: %s' % norm_stmt(dom)
                        else:
                            binds = [a for a in walk_no_nested(f) if isinstance(a, ast.Assign)
                                     and any(isinstance(t, ast.Name) and t.id == var for t in a.targets)]
                            if var in flow.param_names(f):
                                owned = False
                                why = '%s is a parameter (caller-owned object)' % var
                            elif binds:
                                owned = all(_is_owning_expr(a.value, f) for a in binds)
                                why = 'bindings: ' + '; '.join(norm_stmt(a)[:60] for a in binds[:3])
                            else:
                                owned = False
                                why = 'no owning binding of %s in this method' % var
                    yield f, n, var, what, owned, why
