"""E1c + generator-side rules for the C source generators (source/c/uper.py, source/c/oer.py).

The generators build C as lists of string templates, always as an (encode lines, decode lines)
pair.  These rules look at the Python trees of the generator methods: which helper calls flow
into the encode list and which into the decode list (template pairing), whether a bounds check
is emitted before every access with a run-time length, whether the helper registry is closed and
ordered, whether unsupported types are rejected, and which C integer type is chosen for a range."""
import ast
import re

from .model import AnalysisError, Model, walk_no_nested, norm_stmt
from . import flow, evalexpr

CALL_RE = re.compile(r'\b((?:encoder|decoder)_[a-z0-9_{}]+|minimum_uint_length|length_determinant_length|enumerated_value_length)\s*\(')
ENC_PREFIX = 'encoder_append_'
DEC_PREFIX = 'decoder_read_'
IGNORED = {'encoder_abort', 'decoder_abort', 'encoder_alloc', 'decoder_free', 'encoder_init', 'decoder_init', 'encoder_get_result', 'decoder_get_result'}
# cross-kind pairs, with the reason
CROSS = {('uint', 'tag'): 'OER CHOICE: the tag octets are written with encoder_append_uint(<tag>, <tag length>) and read with decoder_read_tag'}


def side_of_target(name):
    n = name.lower()
    if 'encode' in n:
        return 'enc'
    if 'decode' in n:
        return 'dec'
    return None


def strings_in(node):
    return [n for n in ast.walk(node) if isinstance(n, ast.Constant) and isinstance(n.value, str)]


def classify_constants(f):
    """[(Constant node, side)] for every string constant of f that flows into an encode / decode line
    list: by the name of the assigned / extended variable, or by position in a returned 2-tuple."""
    out = []
    seen = set()

    def add(node, side):
        for c in strings_in(node):
            if id(c) not in seen:
                seen.add(id(c))
                out.append((c, side))

    for n in walk_no_nested(f):
        if isinstance(n, (ast.Assign, ast.AugAssign)):
            tg = n.targets[0] if isinstance(n, ast.Assign) else n.target
            if isinstance(tg, ast.Name):
                s = side_of_target(tg.id)
                if s:
                    add(n.value, s)
            elif isinstance(tg, ast.Tuple) and isinstance(n, ast.Assign) and isinstance(n.value, ast.Tuple) and len(tg.elts) == len(n.value.elts):
                for t, v in zip(tg.elts, n.value.elts):
                    if isinstance(t, ast.Name) and side_of_target(t.id):
                        add(v, side_of_target(t.id))
            elif isinstance(tg, ast.Name) is False and isinstance(n, ast.Assign) and isinstance(n.value, ast.Name) is False:
                pass
            # chained:  first_encode_lines = first_decode_lines = [...]
            if isinstance(n, ast.Assign) and len(n.targets) > 1:
                for t in n.targets:
                    if isinstance(t, ast.Name) and side_of_target(t.id):
                        for c in strings_in(n.value):
                            out.append((c, side_of_target(t.id)))
        elif isinstance(n, ast.Call) and isinstance(n.func, ast.Attribute) and n.func.attr in ('append', 'extend', 'insert') and isinstance(n.func.value, ast.Name):
            s = side_of_target(n.func.value.id)
            if s:
                for a in n.args:
                    add(a, s)
        elif isinstance(n, ast.Return) and isinstance(n.value, ast.Tuple) and len(n.value.elts) == 2:
            add(n.value.elts[0], 'enc')
            add(n.value.elts[1], 'dec')
    return out


def helper_kinds(consts):
    """{'enc': set(kinds), 'dec': set(kinds)} of helper calls in classified constants."""
    kinds = {'enc': set(), 'dec': set()}
    for c, side in consts:
        for m in CALL_RE.finditer(c.value):
            name = m.group(1)
            if name in IGNORED or name.endswith('_inner'):
                continue
            if name.startswith(ENC_PREFIX):
                kinds[side].add(name[len(ENC_PREFIX):])
            elif name.startswith(DEC_PREFIX):
                kinds[side].add(name[len(DEC_PREFIX):])
            elif name in ('minimum_uint_length', 'length_determinant_length', 'enumerated_value_length'):
                continue
    return kinds


def pairing_problem(kinds):
    e, d = set(kinds['enc']), set(kinds['dec'])
    for (ek, dk) in CROSS:
        if ek in e and dk in d:
            d.discard(dk)
            if ek not in d:
                e.discard(ek)
    if e == d:
        return None
    return 'encode side uses {%s}, decode side uses {%s}' % (', '.join(sorted(kinds['enc'])), ', '.join(sorted(kinds['dec'])))


def branches_of(f):
    """Leaf branches of the top-level if/elif/else chains of f that assign both encode and decode
    lines: [(condition text, [statements])]"""
    out = []

    def rec(stmts, cond):
        for s in stmts:
            if isinstance(s, ast.If):
                rec(s.body, cond + [ast.unparse(s.test)])
                rec(s.orelse, cond + ['not (' + ast.unparse(s.test) + ')'])
        consts = []
        for s in stmts:
            if isinstance(s, ast.If):
                continue
            holder = ast.Module(body=[s], type_ignores=[])
            consts.extend(classify_constants_stmt(s))
        sides = {sd for _c, sd in consts}
        if sides == {'enc', 'dec'}:
            out.append((' and '.join(cond) or 'always', consts))
    rec(f.body, [])
    return out


def classify_constants_stmt(s):
    class F(object):
        pass
    fake = ast.FunctionDef(name='x', args=None, body=[s], decorator_list=[])
    fake._wnn = None
    # walk_no_nested caches on FunctionDef; use a plain walk here
    out = []
    seen = set()

    def add(node, side):
        for c in strings_in(node):
            if id(c) not in seen:
                seen.add(id(c))
                out.append((c, side))
    for n in ast.walk(s):
        if isinstance(n, (ast.Assign, ast.AugAssign)):
            tgs = n.targets if isinstance(n, ast.Assign) else [n.target]
            for tg in tgs:
                if isinstance(tg, ast.Name) and side_of_target(tg.id):
                    for c in strings_in(n.value):
                        out.append((c, side_of_target(tg.id)))
        elif isinstance(n, ast.Call) and isinstance(n.func, ast.Attribute) and n.func.attr in ('append', 'extend', 'insert') and isinstance(n.func.value, ast.Name):
            sd = side_of_target(n.func.value.id)
            if sd:
                for a in n.args:
                    add(a, sd)
        elif isinstance(n, ast.Return) and isinstance(n.value, ast.Tuple) and len(n.value.elts) == 2:
            add(n.value.elts[0], 'enc')
            add(n.value.elts[1], 'dec')
    return out


# ---------------------------------------------------------------- bounds rule
ACCESS_RE = re.compile(r'(decoder_read_bytes\(|for \(\{[^}]*\} = 0; \{[^}]*\} < dst_p->\{[^}]*\}length|dst_p->\{[^}]*\}length\);)')
GUARD_RE = re.compile(r'if \((\(?\{[^}]*\} != 1u\) \|\| \()?\(?(dst_p->\{[^}]*\}length|\{[^}]*\}) > \{[^}]*\}u\)?\)? \{\{')


def runtime_length_accesses(f):
    """Decode-side string constants that use a length decoded at run time: the read_bytes size argument
    `dst_p->{}length);` and the loop header `for (...; i < dst_p->{}length; ...)`."""
    out = []
    for c, side in classify_constants(f):
        if side != 'dec':
            continue
        v = c.value
        if re.search(r'dst_p->\{[^}]*\}length\);\s*$', v) and 'decoder_read' not in v and '=' not in v:
            out.append((c, 'read of dst_p->...length bytes'))
        elif re.search(r'for \(.*<\s*dst_p->\{[^}]*\}length;', v):
            out.append((c, 'loop up to dst_p->...length'))
    return out


def length_guards(f):
    out = []
    for c, side in classify_constants(f):
        if side == 'dec' and re.search(r'if \(.*(length|\{\})\s*>\s*\{[^}]*\}u\)* \{\{', c.value):
            out.append(c)
    return out


def stmt_of(node, f):
    p = node
    while p is not None and not isinstance(p, ast.stmt):
        p = getattr(p, '_parent', None)
    return p


def conds_of(node, f):
    return [(ast.unparse(t), pol) for t, pol in flow.guards_of(stmt_of(node, f), f)]


# ---------------------------------------------------------------- registry
def registry_problems(helpers):
    """helpers: ordered [(pattern, name, C text)].  A helper must be listed *before* the helpers it
    calls (generate_helpers prepends while scanning, so later entries are emitted first)."""
    probs = []
    pats = [p for p, _n, _t in helpers]
    names = [p[:-1] for p in pats]
    for i, (pat, cname_, text) in enumerate(helpers):
        if not pat.endswith('('):
            probs.append((cname_, 'registry pattern %r does not end with "("' % pat))
        body = text[text.index('{'):] if '{' in text else text
        for m in re.finditer(r'\b([a-z_][a-z0-9_]*)\s*\(', body):
            callee = m.group(1)
            if callee in names and callee != pat[:-1]:
                j = names.index(callee)
                if j < i:
                    probs.append((cname_, '%s calls %s, which is listed earlier in `functions` and is therefore emitted *after* its caller (no prior declaration in C99)'
                                  % (pat[:-1], callee)))
        # the definition defines the function its pattern names
        if not re.search(r'\b%s\s*\(' % re.escape(pat[:-1]), text.split('{')[0]):
            probs.append((cname_, 'pattern %r does not name the function this text defines' % pat))
    return probs


def template_helper_names(model, rel):
    """All encoder_*/decoder_* names used in string constants of a generator module."""
    m = model.mod(rel)
    out = {}
    for n in ast.walk(m.tree):
        if isinstance(n, ast.Constant) and isinstance(n.value, str):
            for mm in CALL_RE.finditer(n.value):
                name = mm.group(1)
                if '{' in name or name.endswith('_inner'):
                    continue
                out.setdefault(name, n)
    return out


# ---------------------------------------------------------------- dispatch chains of the generator
def isinstance_chain(f, modname):
    """[(class name | 'USER' | 'ELSE', body)] of the if/elif chain on isinstance(type_, <mod>.X) / is_user_type(type_)."""
    chain = None
    for s in f.body:
        if isinstance(s, ast.If) and ('isinstance(type_' in ast.unparse(s.test) or 'is_user_type' in ast.unparse(s.test)):
            chain = s
            break
    if chain is None:
        raise AnalysisError('%s: no isinstance dispatch chain' % Model.qual(f))
    out = []
    t = chain
    while True:
        test = t.test
        if isinstance(test, ast.Call) and ast.unparse(test.func) == 'isinstance' and isinstance(test.args[1], ast.Attribute):
            out.append((test.args[1].attr, t.body))
        elif isinstance(test, ast.Call) and ast.unparse(test.func) == 'is_user_type':
            out.append(('USER', t.body))
        else:
            out.append((ast.unparse(test), t.body))
        if len(t.orelse) == 1 and isinstance(t.orelse[0], ast.If):
            t = t.orelse[0]
        else:
            out.append(('ELSE', t.orelse))
            break
    return out


def body_is_empty_result(body):
    """return [] / return [], [] / lines = []"""
    if len(body) != 1:
        return False
    s = body[0]
    v = s.value if isinstance(s, (ast.Return, ast.Assign)) else None
    if v is None:
        return False
    if isinstance(v, ast.List) and not v.elts:
        return True
    if isinstance(v, ast.Tuple) and all(isinstance(e, ast.List) and not e.elts for e in v.elts):
        return True
    return False


def method_returns_empty(f):
    rets = [n for n in walk_no_nested(f) if isinstance(n, ast.Return)]
    return bool(rets) and all(r.value is not None and ((isinstance(r.value, ast.List) and not r.value.elts) or
                                                      (isinstance(r.value, ast.Tuple) and all(isinstance(e, ast.List) and not e.elts for e in r.value.elts)))
                              for r in rets)


# ---------------------------------------------------------------- C integer type of a range
def c_type_for(model, minimum, maximum):
    """Interpret utils.Generator.type_length / format_type_name for one range -> ('int'|'uint', bits) or 'ERROR'."""
    U = 'asn1tools/source/c/utils.py'
    tl = model.func(U, 'Generator.type_length')
    ftn = model.func(U, 'Generator.format_type_name')
    from . import flow as _flow
    pn = [x for x in _flow.param_names(tl) if x != 'self']
    try:
        r, _ = evalexpr.run_function(tl, {pn[0]: minimum, pn[1]: maximum})
    except evalexpr.Raised:
        return 'ERROR'
    except evalexpr.Unsupported:
        return 'UNDECIDED'
    # signedness: format_type_name evaluated on the range ...
    fpn = [x for x in _flow.param_names(ftn) if x != 'self']
    try:
        txt, _ = evalexpr.run_function(ftn, {fpn[0]: minimum, fpn[1]: maximum})
        m_ = re.match(r'^(u?)int(\d+)_t$', txt) if isinstance(txt, str) else None
        if m_:
            return ('uint' if m_.group(1) else 'int', int(m_.group(2)))
    except evalexpr.Raised:
        return 'ERROR'
    except evalexpr.Unsupported:
        pass
    # ... or, when that is beyond the evaluator: the path of format_type_name taken for this range returns a text that starts with `u` or not
    from . import sem
    ps = sem.paths(ftn, positional=True)
    if ps is None:
        return 'UNDECIDED'
    for p in ps:
        if p.outcome[0] != 'return' or len(p.outcome) < 4:
            continue
        if sem.consistent(p, {'ARG0': minimum, 'ARG1': maximum}, evalexpr.ev) is not True:
            continue
        consts = [c.value for c in _consts_in_order(p.outcome[3]) if isinstance(c.value, str)]
        text = ''.join(consts)
        if 'int' not in text:
            return 'UNDECIDED'
        return ('uint' if text.startswith('u') else 'int', r)
    return 'UNDECIDED'


def _consts_in_order(e):
    out = []

    class V(ast.NodeVisitor):
        def visit_Constant(s, n):
            out.append(n)
    V().visit(e)
    return out


def type_holds(t, lo, hi):
    kind, bits = t
    if kind == 'uint':
        return 0 <= lo and hi <= 2 ** bits - 1
    return -2 ** (bits - 1) <= lo and hi <= 2 ** (bits - 1) - 1


def range_points():
    pts = set()
    for k in (7, 8, 15, 16, 31, 32, 63, 64):
        for v in (2 ** k, -2 ** k):
            pts.update({v - 1, v, v + 1})
    pts.update({0, 1, -1, 200, 100, 40000})
    return sorted(pts)


# ---------------------------------------------------------------- dispatch by path summaries
_ISI = re.compile(r'^isinstance\(ARG0, (.+)\)$')


def dispatch_summary(f, cls, _depth=0):
    """The isinstance dispatch of a generator method f(self, type_, ...), read off its path summaries (so that an if/elif chain,
    several consecutive chains, early returns or tuple tests all look the same):
    [(classes tested true on the path, is_user_type true?, outcome kind, returned expression or None, path)] or None (too many paths)."""
    from . import sem
    ps = sem.paths(f, positional=True, max_paths=4000)
    if ps is None:
        return None
    out = []
    for p in ps:
        names, user = set(), False
        for c in p.conds:
            m = _ISI.match(c[0])
            if m and c[1]:
                for part in m.group(1).strip('()').split(','):
                    part = part.strip()
                    # a class of the codec; a module-level tuple of classes (_VALUE_TYPES) groups classes for post-processing, it is not a dispatch case
                    if part and re.match(r'^[A-Z][A-Za-z0-9]*$', part.split('.')[-1]) and not part.split('.')[-1].isupper():
                        names.add(part.split('.')[-1])
            if c[1] and re.match(r'^(?:\w+\.)?\w*user_type\(ARG0\)$', c[0]):
                user = True
        val = p.outcome[3] if p.outcome[0] == 'return' and len(p.outcome) > 3 else None
        # the dispatch may live in a step of its own that is handed the type: `return self._format_builtin_type(type_, checker)`, or `lines = self.<step>(type_, ..)`
        # earlier on the path -- its summary is combined with the conditions of this path
        sub = None
        if _depth < 2:
            cands = [val] if isinstance(val, ast.Call) else []
            cands += [ev[2] for ev in p.events if ev[0] == 'call' and len(ev) > 2 and isinstance(ev[2], ast.Call)]
            for cv in cands:
                if isinstance(cv.func, ast.Attribute) and isinstance(cv.func.value, ast.Name) and cv.func.value.id == 'self' and cv.args \
                        and ast.unparse(cv.args[0]) in ('ARG0', [a.arg for a in f.args.args][1:2][0] if len(f.args.args) > 1 else 'ARG0'):
                    r = cls.find_method(cv.func.attr)
                    if r is not None and r[1] is not f:
                        s2 = dispatch_summary(r[1], cls, _depth + 1)
                        if s2 and any(e[0] for e in s2):
                            sub = (s2, cv is val)
                            break
        if sub is not None:
            s2, is_ret = sub
            # the caller rejects the step's "not supported" answer (None) itself:  lines = self.<step>(..); if lines is None: raise ...
            rejects_none = any(q.outcome[0] == 'raise' and any(c_[1] and c_[0].endswith(' is None') for c_ in q.conds) for q in ps)
            if p.outcome[0] == 'raise' and any(c_[1] and c_[0].endswith(' is None') for c_ in p.conds):
                continue          # accounted for with the step's None entry below
            for n2, u2, k2, v2, p2 in s2:
                none_ = v2 is not None and isinstance(v2, ast.Constant) and v2.value is None
                if none_ and k2 == 'return' and not n2 and rejects_none:
                    out.append((frozenset(names) | n2, user or u2, 'raise', None, p2))
                elif k2 == 'raise' or is_ret:
                    out.append((frozenset(names) | n2, user or u2, k2, v2, p2))
                else:
                    out.append((frozenset(names) | n2, user or u2, p.outcome[0], v2 if v2 is not None else val, p))
            continue
        out.append((frozenset(names), user, p.outcome[0], val, p))
    return out


def value_is_empty(v):
    """`[]`, `([], [])`: an evidently empty translation"""
    if isinstance(v, ast.List) and not v.elts:
        return True
    if isinstance(v, ast.Tuple) and v.elts and all(isinstance(e, ast.List) and not e.elts for e in v.elts):
        return True
    return False


# ---------------------------------------------------------------- path-based template pairing
def returns_pair(f):
    """does every return of f give a tuple (encode lines, decode lines, ...)?  A helper that returns one list is one-sided."""
    rets = [n for n in walk_no_nested(f) if isinstance(n, ast.Return) and n.value is not None]
    if not rets:
        return False
    for r in rets:
        v = r.value
        if isinstance(v, ast.Tuple) and len(v.elts) >= 2:
            continue
        if isinstance(v, ast.Call):
            continue      # forwards another helper's result
        return False
    return any(isinstance(r.value, ast.Tuple) for r in rets) or all(isinstance(r.value, ast.Call) for r in rets)


def side_constants(stmt, resolve):
    """[(Constant, side)] of one statement; a call of a one-sided helper (resolve(call) -> FunctionDef whose returns are single
    lists) contributes the helper's own templates to the side its result is assigned to."""
    out = []
    seen = set()

    def add(node, side):
        for n in ast.walk(node):
            if isinstance(n, ast.Constant) and isinstance(n.value, str) and id(n) not in seen:
                seen.add(id(n))
                out.append((n, side))
            elif isinstance(n, ast.Call) and resolve is not None:
                g = resolve(n)
                if g is not None and not returns_pair(g) and id(g) not in seen:
                    seen.add(id(g))
                    for c in strings_in(g):
                        out.append((c, side))
    for n in [stmt] + [x for x in ast.walk(stmt) if x is not stmt and not isinstance(x, ast.stmt)]:
        if isinstance(n, (ast.Assign, ast.AugAssign)):
            tgs = n.targets if isinstance(n, ast.Assign) else [n.target]
            for tg in tgs:
                if isinstance(tg, ast.Name) and side_of_target(tg.id):
                    add(n.value, side_of_target(tg.id))
                elif isinstance(tg, ast.Tuple) and isinstance(n.value, ast.Tuple) and len(tg.elts) == len(n.value.elts):
                    for t, v in zip(tg.elts, n.value.elts):
                        if isinstance(t, ast.Name) and side_of_target(t.id):
                            add(v, side_of_target(t.id))
        elif isinstance(n, ast.Call) and isinstance(n.func, ast.Attribute) and n.func.attr in ('append', 'extend', 'insert') and isinstance(n.func.value, ast.Name):
            sd = side_of_target(n.func.value.id)
            if sd:
                for a in n.args:
                    add(a, sd)
        elif isinstance(n, ast.Return) and isinstance(n.value, ast.Tuple) and len(n.value.elts) >= 2:
            add(n.value.elts[0], 'enc')
            add(n.value.elts[1], 'dec')
    return out


def unattributed_templates(f, resolve):
    """Helper-call templates within reach of f that the side rules cannot attribute to the encode or the decode list: templates inside
    nested functions (callbacks handed to another method), in helpers whose result goes to a name that says nothing about a side.
    A pairing verdict is only as good as the attribution, so a mismatch with unattributed templates around is `undecided`."""
    attributed = set()
    for s in walk_no_nested(f):
        if isinstance(s, ast.stmt) and not isinstance(s, (ast.FunctionDef, ast.ClassDef)):
            for c, _sd in side_constants(s, resolve):
                attributed.add(id(c))
    out = []
    scopes = [f]
    for n in ast.walk(f):
        if isinstance(n, ast.Call) and resolve is not None:
            g = resolve(n)
            if g is not None and g not in scopes and not returns_pair(g):
                scopes.append(g)
    for sc in scopes:
        for c in strings_in(sc):
            if id(c) in attributed:
                continue
            for m in CALL_RE.finditer(c.value):
                nm = m.group(1)
                if nm not in IGNORED and not nm.endswith('_inner') and (nm.startswith(ENC_PREFIX) or nm.startswith(DEC_PREFIX)):
                    out.append(c)
                    break
    return out


def path_pairing(f, resolve):
    """Template pairing along every path of f: -> None (too many paths) | [] (paired on every path) | [(conditions, problem)]"""
    from . import sem
    ps = sem.paths(f, max_paths=3000)
    if ps is None:
        return None
    probs = []
    seen_sets = set()
    for p in ps:
        if p.outcome[0] == 'raise':
            continue
        stmts = []
        ids = set()
        for ev in p.events:
            if ev[0] in ('stmt', 'in-loop:stmt') and id(ev[2]) not in ids:
                ids.add(id(ev[2]))
                stmts.append(ev[2])
        key = frozenset(ids)
        if key in seen_sets:
            continue
        seen_sets.add(key)
        consts = []
        for s in stmts:
            consts.extend(side_constants(s, resolve))
        kinds = helper_kinds(consts)
        prob = pairing_problem(kinds)
        if prob:
            probs.append((' && '.join(('' if c[1] else 'not ') + c[0] for c in p.conds) or 'always', prob))
    return probs
