"""MANIFEST.setup_cmd: nothing to build -- verify the tool chain the checks rely on."""
import sys


def main():
    import ast  # noqa
    from .model import Model
    m = Model()
    assert len(m.modules) >= 25, 'repository model too small'
    try:
        import pycparser  # noqa
        print('pycparser', pycparser.__version__)
    except Exception as e:  # pragma: no cover
        print('WARNING: pycparser missing (%s): C09/C10 helper rules will report ANALYSIS-ERROR' % e)
    print('sa selfcheck ok: %d modules parsed from %s' % (len(m.modules), m.repo))
    return 0


if __name__ == '__main__':
    sys.exit(main())
