"""CLI:  python -m sa.run --property C08 --tier quick|thorough

exit 0  every rule instance held (possibly with KNOWN-FINDING lines)
exit 1  at least one unlisted violation (VIOLATION property=<id> replay=<path>)
exit 2  ANALYSIS-ERROR (anchor vanished, rule below its floor, control did not fire, crash)
"""
import argparse
import importlib
import os
import sys
import time
import traceback

from .model import Model, AnalysisError
from . import core


def load(prop):
    return importlib.import_module('sa.props.%s' % prop)


def apply_edit(model_texts, edit):
    """edit = dict(file=rel, old=str, new=str[, count=1]) -> overlay dict or None when the
    anchor text is not present exactly `count` times (repo was refactored)."""
    overlay = {}
    edits = edit['edits'] if 'edits' in edit else [edit]
    for e in edits:
        rel = e['file']
        text = overlay.get(rel, model_texts.get(rel))
        if text is None:
            return None
        if text.count(e['old']) != e.get('count', 1):
            return None
        overlay[rel] = text.replace(e['old'], e['new'])
    return overlay


def _run_variant(args):
    prop, repo, overlay, tier = args
    try:
        mod = load(prop)
        ctx = core.run_property(prop, mod.check, tier, repo, overlay)
        if ctx.problems and not ctx.findings:
            return ('analysis-error', ctx.problems[0])
        return ('ok', [(f.key(), f.as_dict()) for f in ctx.findings])
    except AnalysisError as e:
        return ('analysis-error', str(e))
    except Exception:
        return ('crash', traceback.format_exc())


def run_variants(prop, repo, base_keys, variants, texts, tier, kind, jobs):
    """kind='mutant': a new finding (of rule `expect` when given) must appear.
       kind='refactor': no new finding may appear."""
    todo = []
    results = []
    for v in variants:
        ov = apply_edit(texts, v)
        if ov is None:
            results.append(dict(name=v['name'], status='skipped', why='anchor text not found in current tree'))
        else:
            todo.append((v, ov))
    if todo:
        if jobs > 1 and len(todo) > 2:
            import multiprocessing
            with multiprocessing.Pool(min(jobs, len(todo))) as pool:
                outs = pool.map(_run_variant, [(prop, repo, ov, 'quick') for _v, ov in todo])
        else:
            outs = [_run_variant((prop, repo, ov, 'quick')) for _v, ov in todo]
        for (v, _ov), (st, payload) in zip(todo, outs):
            r = dict(name=v['name'])
            if st != 'ok':
                # an analysis error on a mutant counts as "noticed" (fail-closed) for
                # mutants, and as a failure for refactors
                r['status'] = 'fail-closed' if kind == 'mutant' else 'FALSE-ALARM'
                r['why'] = payload.strip().splitlines()[-1][:300]
            else:
                new = [d for k, d in payload if k not in base_keys]
                if kind == 'mutant':
                    exp = v.get('expect')
                    hit = [d for d in new if exp is None or d['rule'] == exp or d['rule'] in (exp if isinstance(exp, (list, tuple)) else ())]
                    r['status'] = 'killed' if hit else 'MISSED'
                    if hit:
                        r['by'] = '%s %s' % (hit[0]['rule'], hit[0]['construct'])
                else:
                    r['status'] = 'silent' if not new else 'FALSE-ALARM'
                    if new:
                        r['why'] = '%s %s: %s' % (new[0]['rule'], new[0]['construct'], new[0]['message'])
            results.append(r)
    return results


def main(argv=None):
    ap = argparse.ArgumentParser()
    ap.add_argument('--property', required=True)
    ap.add_argument('--tier', default=os.environ.get('VERIF_TIER', 'quick'), choices=['quick', 'thorough'])
    ap.add_argument('--repo', default=os.environ.get('VERIF_REPO', '/repo'))
    ap.add_argument('--no-controls', action='store_true')
    ap.add_argument('--jobs', type=int, default=int(os.environ.get('VERIF_JOBS', '16')))
    ap.add_argument('--verbose', '-v', action='store_true')
    ap.add_argument('--keys', action='store_true', help='print the keys of unlisted findings in KNOWN_FINDINGS.txt syntax')
    a = ap.parse_args(argv)
    prop = a.property
    seed = int(os.environ.get('VERIF_SEED', '0') or 0)
    t0 = time.time()
    try:
        mod = load(prop)
        known = core.Known()
        ctx = core.run_property(prop, mod.check, a.tier, a.repo)
        texts = {rel: m.text for rel, m in ctx.model.modules.items()}
        base_keys = {f.key() for f in ctx.findings}
        controls = None
        selftest = None
        problems = list(ctx.problems)
        if not a.no_controls:
            muts = list(getattr(mod, 'MUTANTS', []))
            refs = list(getattr(mod, 'REFACTORS', []))
            if a.tier == 'quick':
                # quick: a few positive controls (flagged quick=True, else the first three) and one refactor
                qm = [m for m in muts if m.get('quick')]
                muts = qm if qm else muts[:3]
                qr = [m for m in refs if m.get('quick')]
                refs = qr if qr else refs[:1]
            mres = run_variants(prop, a.repo, base_keys, muts, texts, a.tier, 'mutant', a.jobs)
            rres = run_variants(prop, a.repo, base_keys, refs, texts, a.tier, 'refactor', a.jobs)
            controls = dict(
                mutants_total=len(mres), mutants_killed=len([r for r in mres if r['status'] in ('killed', 'fail-closed')]),
                mutants_skipped=len([r for r in mres if r['status'] == 'skipped']),
                refactors_total=len(rres), refactors_silent=len([r for r in rres if r['status'] == 'silent']),
                refactors_skipped=len([r for r in rres if r['status'] == 'skipped']),
                detail=mres + rres)
            # thorough: every repaired defect (fixed: entries) must be reported again when its fix is reverted
            if a.tier == 'thorough':
                from . import selftest
                rv = []
                for fprop, commit, what in selftest.fixed_entries(prop):
                    ov = selftest.revert_overlay(a.repo, commit)
                    name = 'revert fix %s (%s)' % (commit, what[:70])
                    if ov is None:
                        rv.append(dict(name=name, status='skipped', why='commit not available or reverse patch does not apply'))
                        continue
                    st, payload = _run_variant((prop, a.repo, ov, 'quick'))
                    r = dict(name=name)
                    if st != 'ok':
                        r['status'] = 'fail-closed'
                        r['why'] = payload.strip().splitlines()[-1][:200]
                    else:
                        new = [d for k, d in payload if k not in base_keys]
                        r['status'] = 'killed' if new else 'MISSED'
                        if new:
                            r['by'] = '%s %s' % (new[0]['rule'], new[0]['construct'])
                    rv.append(r)
                # ... and every confirmed seeded regression of this property (seeded/<id>/patch.diff) applied to the current tree must be reported
                sv = []
                for sid, pp, expected in selftest.seed_entries(prop):
                    ov = selftest.patch_overlay(a.repo, pp)
                    name = 'seeded regression %s' % sid
                    if ov is None:
                        sv.append(dict(name=name, status='skipped', why='patch does not apply to the current tree'))
                        continue
                    st, payload = _run_variant((prop, a.repo, ov, 'quick'))
                    r = dict(name=name)
                    if st != 'ok':
                        r['status'] = 'fail-closed'
                        r['why'] = payload.strip().splitlines()[-1][:200]
                    else:
                        new = [d for k, d in payload if k not in base_keys]
                        r['status'] = 'killed' if new else ('MISSED' if expected else 'missed (recorded in seeded/%s/meta.json)' % sid)
                        if new:
                            r['by'] = '%s %s' % (new[0]['rule'], new[0]['construct'])
                    sv.append(r)
                # ... and every behaviour-preserving refactoring patch (refactors/<id>/patch.diff) applied to the current tree must stay silent
                rp = []
                rdir = os.path.join(core.VERIF, 'refactors')
                todo = []
                for rid in sorted(os.listdir(rdir)) if os.path.isdir(rdir) else []:
                    pp = os.path.join(rdir, rid, 'patch.diff')
                    if not os.path.exists(pp):
                        continue
                    ov = selftest.patch_overlay(a.repo, pp)
                    if ov is None:
                        rp.append(dict(name='refactoring patch %s' % rid, status='skipped', why='patch does not apply to the current tree'))
                    else:
                        todo.append((rid, ov))
                if todo:
                    import multiprocessing
                    with multiprocessing.Pool(min(a.jobs, len(todo))) as pool:
                        outs = pool.map(_run_variant, [(prop, a.repo, ov, 'quick') for _rid, ov in todo])
                    for (rid, _ov), (st, payload) in zip(todo, outs):
                        r = dict(name='refactoring patch %s' % rid)
                        if st != 'ok':
                            r['status'] = 'FALSE-ALARM'
                            r['why'] = payload.strip().splitlines()[-1][:300]
                        else:
                            new = [d for k, d in payload if k not in base_keys]
                            r['status'] = 'silent' if not new else 'FALSE-ALARM'
                            if new:
                                r['why'] = '%s %s: %s' % (new[0]['rule'], new[0]['construct'], new[0]['message'][:200])
                        rp.append(r)
                controls['refactor_patches_total'] = len(rp)
                controls['refactor_patches_silent'] = len([r for r in rp if r['status'] == 'silent'])
                rres = rres + rp
                controls['seeds_total'] = len(sv)
                controls['seeds_reported'] = len([r for r in sv if r['status'] in ('killed', 'fail-closed')])
                rv = rv + sv
                controls['fix_reverts_total'] = len(rv) - len(sv)
                controls['fix_reverts_reported'] = len([r for r in rv if r['status'] in ('killed', 'fail-closed') and not r['name'].startswith('seeded regression')])
                controls['detail'] += rv + rp
                mres = mres + rv
            for r in mres:
                if r['status'] == 'MISSED':
                    problems.append('positive control %r applied but no rule fired' % r['name'])
            for r in rres:
                if r['status'] == 'FALSE-ALARM':
                    problems.append('behaviour-preserving variant %r raised an alarm: %s' % (r['name'], r.get('why')))
        if a.keys:
            for f in ctx.findings:
                if not known.match(f):
                    print('known: property=%s rule=%s construct=%s stmt=%s :: <what fails>' % (f.prop, f.rule, f.construct, f.stmt))
        if a.verbose:
            for rid, c in sorted(ctx.rule_counts.items()):
                print('  %-10s instances=%-4d nontrivial=%-4d %s' % (rid, c[0], c[1], ctx.rule_doc.get(rid, '')[:90]))
            if controls:
                for r in controls['detail']:
                    print('  control %-50s %s %s' % (r['name'][:50], r['status'], r.get('by', r.get('why', ''))))
        evidence_dir = None
        if os.path.realpath(a.repo) != os.path.realpath(os.environ.get('VERIF_REPO', '/repo')) or os.environ.get('VERIF_EVIDENCE_DIR'):
            # analysing a scratch copy (seeded change, refactor variant): never overwrite the evidence of /repo
            import tempfile
            evidence_dir = os.environ.get('VERIF_EVIDENCE_DIR') or os.path.join(tempfile.gettempdir(), 'sa_evidence_scratch')
        rc = core.finish(ctx, known, t0, controls=controls, seed=seed, evidence_dir=evidence_dir,
                         level=getattr(mod, 'LEVEL', 'other'),
                         explanation=getattr(mod, 'EXPLANATION', ''),
                         trusted=getattr(mod, 'TRUSTED', None),
                         assumptions=getattr(mod, 'ASSUMPTIONS', None),
                         checker_cmd='/venv/bin/python -m sa.run --property %s --tier %s' % (prop, a.tier))
        if problems:
            for p in problems:
                print('ANALYSIS-ERROR property=%s %s' % (prop, p))
            return 2 if rc == 0 else rc
        n_inst = sum(c[0] for c in ctx.rule_counts.values())
        n_und = len([i for i in ctx.instances if str(i[2]).startswith(('undecided', 'not-analysed'))])
        if a.verbose:
            for i in ctx.instances:
                if str(i[2]).startswith(('undecided', 'not-analysed')):
                    print('  UNDECIDED %s %s %s' % (i[0], i[1], i[3]))
        print('%s %s: %d rules, %d instances (%d undecided), %d findings (%d unlisted), controls %s, %.2fs' % (
            prop, a.tier, len(ctx.rule_counts), n_inst, n_und, len(ctx.findings),
            len([f for f in ctx.findings if not known.match(f)]),
            ('%d/%d killed, %d/%d silent' % (controls['mutants_killed'], controls['mutants_total'] - controls['mutants_skipped'],
                                             controls['refactors_silent'], controls['refactors_total'] - controls['refactors_skipped'])) if controls else 'off',
            time.time() - t0))
        return rc
    except AnalysisError as e:
        print('ANALYSIS-ERROR property=%s %s' % (prop, e))
        return 2
    except Exception:
        traceback.print_exc()
        print('ANALYSIS-ERROR property=%s internal error (traceback above)' % prop)
        return 2


if __name__ == '__main__':
    sys.stdout.flush()
    rc = main()
    sys.stdout.flush()
    os._exit(rc)
