"""Interval abstract interpretation of integer expressions in one function (E10).

Domain: (lo, hi, wire) with lo/hi an int or None (= unbounded) and `wire` = the value depends on the input stream or on the read
position.  Flow-sensitive over the statement kinds the codecs use; loops are analysed to a fixpoint with widening (a bound that moved
is dropped).  Branch conditions of the form  <name|attribute> <op> <expr>  refine the interval of the tested name in the branch.
Nothing is executed; the result is an over-approximation of the values an expression can take.

Used by C08.R7: the *amount* handed to a consuming Decoder primitive (skip_bits, read_bits, read_bytes, read_non_negative_binary_integer:
derived from the Decoder classes, not listed) must be provably non-negative wherever it depends on the input -- a negative amount passes
the `amount > self.number_of_bits` guard and moves the read position *backwards*."""
import ast

from .model import walk_no_nested


class Iv(object):
    __slots__ = ('lo', 'hi', 'wire')

    def __init__(self, lo=None, hi=None, wire=False):
        self.lo, self.hi, self.wire = lo, hi, wire

    def __repr__(self):
        return '[%s, %s]%s' % ('-inf' if self.lo is None else self.lo, '+inf' if self.hi is None else self.hi, ' wire' if self.wire else '')

    def nn(self):
        return self.lo is not None and self.lo >= 0

    def key(self):
        return (self.lo, self.hi, self.wire)


TOP = Iv()


class _Abort(Exception):
    """evaluation reached an operation that certainly raises (shift by a negative count, a callee that never completes)"""


def infeasible(env):
    return any(isinstance(v, Iv) and v.lo is not None and v.hi is not None and v.lo > v.hi for v in env.values())


def const(v):
    return Iv(v, v, False)


def join(a, b):
    if a is None:
        return b
    if b is None:
        return a
    lo = None if a.lo is None or b.lo is None else min(a.lo, b.lo)
    hi = None if a.hi is None or b.hi is None else max(a.hi, b.hi)
    return Iv(lo, hi, a.wire or b.wire)


def _add(x, y):
    return None if x is None or y is None else x + y


def _neg(x):
    return None if x is None else -x


def neg(a):
    return Iv(_neg(a.hi), _neg(a.lo), a.wire)


def add(a, b):
    return Iv(_add(a.lo, b.lo), _add(a.hi, b.hi), a.wire or b.wire)


def sub(a, b):
    return add(a, neg(b))


NEG_INF, POS_INF = 'ninf', 'pinf'


def _xmul(x, y):
    """product of extended integers (0 * inf = 0)"""
    if x == 0 or y == 0:
        return 0
    sx = -1 if (x == NEG_INF or (x != POS_INF and x < 0)) else 1
    sy = -1 if (y == NEG_INF or (y != POS_INF and y < 0)) else 1
    if x in (NEG_INF, POS_INF) or y in (NEG_INF, POS_INF):
        return POS_INF if sx * sy > 0 else NEG_INF
    return x * y


def mul(a, b):
    w = a.wire or b.wire
    al, ah = (NEG_INF if a.lo is None else a.lo), (POS_INF if a.hi is None else a.hi)
    bl, bh = (NEG_INF if b.lo is None else b.lo), (POS_INF if b.hi is None else b.hi)
    c = [_xmul(al, bl), _xmul(al, bh), _xmul(ah, bl), _xmul(ah, bh)]
    lo = None if NEG_INF in c else min(x for x in c if x != POS_INF) if any(x != POS_INF for x in c) else None
    hi = None if POS_INF in c else max(x for x in c if x != NEG_INF) if any(x != NEG_INF for x in c) else None
    return Iv(lo, hi, w)


class Analysis(object):
    """One function.  decoder_names: local names bound to a Decoder object; in_decoder: `self` is a Decoder.
    summaries(name) -> Iv of the value a Decoder method returns (or None)."""

    def __init__(self, f, decoder_names=(), in_decoder=False, summaries=None, param_iv=None, state_attr='number_of_bits', config_nn=True, facts=None, depth=0):
        self.f = f
        self.decoder_names = set(decoder_names)
        self.in_decoder = in_decoder
        self.summaries = summaries or (lambda name: None)
        self.facts = facts
        self.depth = depth
        self.completes = False
        self.stack = frozenset()
        self.callee_of = {}      # id(call node) -> the helper function it lies in (when recorded through a helper call)
        self.state_attr = state_attr
        self.calls = {}       # id(call node) -> (call node, joined Iv of the first argument, text)
        self.stores = {}      # id(stmt) -> (stmt, Iv of the amount subtracted from <decoder>.number_of_bits)
        self.ret = None
        self.param_iv = param_iv or {}
        self.config_nn = config_nn

    # ---- expressions
    def is_decoder(self, e):
        if isinstance(e, ast.Name):
            return e.id in self.decoder_names or (self.in_decoder and e.id == 'self')
        return False

    def ev(self, e, env):
        if isinstance(e, ast.Constant):
            if isinstance(e.value, bool):
                return const(int(e.value))
            if isinstance(e.value, int):
                return const(e.value)
            return TOP
        if isinstance(e, ast.Name):
            if e.id in env:
                return env[e.id]
            if e.id in ('True', 'False'):
                return const(int(e.id == 'True'))
            lit = self.literal_of(e, env)
            if isinstance(lit, ast.Constant) and isinstance(lit.value, int):
                return const(int(lit.value))
            return TOP
        if isinstance(e, ast.Attribute):
            k = ast.unparse(e)
            if k in env:
                return env[k]
            if self.is_decoder(e.value) and e.attr in (self.state_attr, 'total_number_of_bits'):
                return Iv(0, None, True)
            if self.config_nn and isinstance(e.value, ast.Name) and e.value.id == 'self' and not self.in_decoder:
                # assumption (recorded by the rule): configuration attributes that enter amount arithmetic are non-negative
                return Iv(0, None, False)
            return TOP
        if isinstance(e, ast.UnaryOp):
            v = self.ev(e.operand, env)
            if isinstance(e.op, ast.USub):
                return neg(v)
            if isinstance(e.op, ast.UAdd):
                return v
            if isinstance(e.op, ast.Not):
                return Iv(0, 1, v.wire)
            return Iv(None, None, v.wire)
        if isinstance(e, ast.BinOp):
            a, b = self.ev(e.left, env), self.ev(e.right, env)
            w = a.wire or b.wire
            op = e.op
            if isinstance(op, ast.Add):
                return add(a, b)
            if isinstance(op, ast.Sub):
                return sub(a, b)
            if isinstance(op, ast.Mult):
                return mul(a, b)
            if isinstance(op, ast.FloorDiv):
                if b.lo is not None and b.lo > 0:
                    if a.nn():
                        return Iv(0 if b.hi is None else a.lo // b.hi, None if a.hi is None else a.hi // b.lo, w)
                    return Iv(a.lo if a.lo is None or a.lo >= 0 else a.lo, None if a.hi is None else max(a.hi // b.lo, 0), w)
                return Iv(None, None, w)
            if isinstance(op, ast.Mod):
                if b.lo is not None and b.lo > 0:
                    hi = None if b.hi is None else b.hi - 1
                    if a.nn() and a.hi is not None and (hi is None or a.hi < hi):
                        hi = a.hi
                    return Iv(0, hi, w)
                return Iv(None, None, w)
            if isinstance(op, (ast.LShift, ast.RShift)) and b.hi is not None and b.hi < 0:
                raise _Abort()        # ValueError: negative shift count
            if isinstance(op, ast.LShift):
                if a.nn() and b.nn():
                    hi = None
                    if a.hi is not None and b.hi is not None and b.hi <= 4096:
                        hi = a.hi << b.hi
                    return Iv(a.lo << min(b.lo, 4096), hi, w)
                if a.nn():
                    return Iv(a.lo, None, w)       # a negative shift count raises ValueError: no value, so the result is at least a
                return Iv(None, None, w)
            if isinstance(op, ast.RShift):
                if a.nn():
                    return Iv(0, a.hi, w)
                return Iv(None, None, w)
            if isinstance(op, ast.BitAnd):
                cands = [x.hi for x in (a, b) if x.nn()]
                if cands:
                    his = [h for h in cands if h is not None]
                    return Iv(0, min(his) if his else None, w)
                return Iv(None, None, w)
            if isinstance(op, (ast.BitOr, ast.BitXor)):
                if a.nn() and b.nn():
                    hi = None
                    if a.hi is not None and b.hi is not None:
                        hi = (1 << max(a.hi.bit_length(), b.hi.bit_length())) - 1
                    return Iv(0 if isinstance(op, ast.BitXor) else max(a.lo, b.lo), hi, w)
                return Iv(None, None, w)
            if isinstance(op, ast.Pow):
                if a.nn() and b.nn():
                    return Iv(0, None, w)
                return Iv(None, None, w)
            return Iv(None, None, w)
        if isinstance(e, ast.BoolOp):
            r = None
            for v in e.values:
                r = join(r, self.ev(v, env))
            return r
        if isinstance(e, ast.IfExp):
            self.ev(e.test, env)
            t_env, f_env = dict(env), dict(env)
            self.refine(e.test, t_env, True)
            self.refine(e.test, f_env, False)
            return join(self.ev(e.body, t_env), self.ev(e.orelse, f_env))
        if isinstance(e, ast.Compare):
            w = self.ev(e.left, env).wire
            for c in e.comparators:
                w = self.ev(c, env).wire or w
            return Iv(0, 1, w)
        if isinstance(e, ast.Call):
            return self.call(e, env)
        if isinstance(e, ast.Subscript):
            base = e.value
            if isinstance(base, ast.Dict) and base.values:
                self.ev(e.slice, env) if not isinstance(e.slice, ast.Slice) else None
                r = None
                for v in base.values:
                    r = join(r, self.ev(v, env))
                return r
            lit = self.literal_of(base, env)
            if isinstance(lit, ast.Dict) and lit.values:
                r = None
                for v in lit.values:
                    r = join(r, self.ev(v, {}))
                return Iv(r.lo, r.hi, r.wire or (self.ev(e.slice, env).wire if not isinstance(e.slice, ast.Slice) else False))
            if isinstance(lit, (ast.List, ast.Tuple)) and lit.elts and not isinstance(e.slice, ast.Slice):
                r = None
                for v in lit.elts:
                    r = join(r, self.ev(v, {}))
                return Iv(r.lo, r.hi, r.wire or self.ev(e.slice, env).wire)
            b = self.ev(base, env)
            if not isinstance(e.slice, ast.Slice):
                i = self.ev(e.slice, env)
                return Iv(None, None, b.wire or i.wire)
            return Iv(None, None, b.wire)
        if isinstance(e, (ast.Tuple, ast.List)):
            w = False
            for x in e.elts:
                w = self.ev(x, env).wire or w
            return Iv(None, None, w)
        if isinstance(e, (ast.ListComp, ast.GeneratorExp, ast.SetComp, ast.DictComp)):
            return self.comp(e, env)
        if isinstance(e, (ast.Yield, ast.YieldFrom)):
            if e.value is not None:
                self.ret = join(self.ret, self.ev(e.value, env))
            self.completes = True
            return TOP
        w = False
        for ch in ast.iter_child_nodes(e):
            if isinstance(ch, ast.expr):
                w = self.ev(ch, env).wire or w
        return Iv(None, None, w)

    def literal_of(self, base, env):
        """the literal display a module-level name / class-level attribute is bound to (a constant table), or None"""
        try:
            if isinstance(base, ast.Name) and base.id not in env and getattr(self.f, '_mod', None) is not None:
                r = self.f._mod.resolve_name(base.id)
                if isinstance(r, tuple) and r[0] == 'const':
                    return r[1]
            if isinstance(base, ast.Attribute) and isinstance(base.value, ast.Name) and base.value.id in ('self', 'cls') and ast.unparse(base) not in env \
                    and getattr(self.f, '_cls', None) is not None:
                r = self.f._cls.find_attr(base.attr)
                if r is not None:
                    return r[1]
        except Exception:
            return None
        return None

    def comp(self, e, env):
        env = dict(env)
        w = False
        for g in e.generators:
            it = self.ev(g.iter, env)
            w = w or it.wire
            self.bind_iter(g.target, g.iter, it, env)
            for c in g.ifs:
                self.ev(c, env)
                self.refine(c, env, True)
        if isinstance(e, ast.DictComp):
            w = self.ev(e.key, env).wire or self.ev(e.value, env).wire or w
        else:
            w = self.ev(e.elt, env).wire or w
        return Iv(None, None, w)

    def bind_iter(self, target, iter_node, it, env):
        iv = Iv(None, None, it.wire)
        if isinstance(iter_node, ast.Call) and isinstance(iter_node.func, ast.Attribute) and self.is_decoder(iter_node.func.value):
            iv = it        # a generator method of the decoder: the elements are what it yields (the summary of the method)
        if isinstance(iter_node, ast.Call) and isinstance(iter_node.func, ast.Name) and iter_node.func.id == 'range' and iter_node.args and not iter_node.keywords:
            a = [self.ev(x, env) for x in iter_node.args]
            if len(a) == 1:
                iv = Iv(0, None if a[0].hi is None else a[0].hi - 1, a[0].wire)
            elif len(a) == 2:
                iv = Iv(a[0].lo, None if a[1].hi is None else a[1].hi - 1, a[0].wire or a[1].wire)
            else:
                iv = Iv(None, None, any(x.wire for x in a))
        for n in ast.walk(target):
            if isinstance(n, ast.Name):
                env[n.id] = iv if isinstance(target, ast.Name) else Iv(None, None, it.wire)

    def _star_args(self, a, env):
        """*self.<attr>: a record of the object's configuration (a named tuple built as K(minimum, maximum, ...) in one of its methods): one argument per field, each the
        configuration attribute of that name when the object has one"""
        v = a.value
        cls = getattr(self.f, '_cls', None)
        if not (isinstance(v, ast.Attribute) and isinstance(v.value, ast.Name) and v.value.id == 'self' and cls is not None):
            return None
        def fields(call_args):
            out = []
            for x in call_args:
                if isinstance(x, ast.Name):
                    out.append(self.ev(ast.Attribute(value=ast.Name(id='self', ctx=ast.Load()), attr=x.id, ctx=ast.Load()), env))
                elif isinstance(x, ast.Attribute):
                    out.append(self.ev(x, env))
                else:
                    return None
            return out
        pr = cls.find_method(v.attr)
        if pr is not None and any(isinstance(d, ast.Name) and d.id == 'property' for d in pr[1].decorator_list):
            rets = [n for n in walk_no_nested(pr[1]) if isinstance(n, ast.Return) and n.value is not None]
            if len(rets) == 1 and isinstance(rets[0].value, ast.Call) and rets[0].value.args and not rets[0].value.keywords:
                return fields(rets[0].value.args)
            return None
        for k in cls.mro():
            for g in k.methods.values():
                for n in walk_no_nested(g):
                    if isinstance(n, ast.Assign) and isinstance(n.value, ast.Call) and n.value.args and not n.value.keywords \
                            and any(isinstance(t, ast.Attribute) and isinstance(t.value, ast.Name) and t.value.id == 'self' and t.attr == v.attr for t in n.targets):
                        out = []
                        for x in n.value.args:
                            if isinstance(x, ast.Name):
                                out.append(self.ev(ast.Attribute(value=ast.Name(id='self', ctx=ast.Load()), attr=x.id, ctx=ast.Load()), env))
                            elif isinstance(x, ast.Attribute):
                                out.append(self.ev(x, env))
                            else:
                                return None
                        return out
        return None

    def call(self, e, env):
        args = []
        for a in e.args:
            if isinstance(a, ast.Starred):
                ex = self._star_args(a, env)
                if ex is None:
                    self.ev(a.value, env)
                    args.append(TOP)
                else:
                    args.extend(ex)
            else:
                args.append(self.ev(a, env))
        for k in e.keywords:
            self.ev(k.value, env)
        w = any(a.wire for a in args)
        fn = e.func
        if isinstance(fn, ast.Attribute):
            recv = fn.value
            if self.is_decoder(recv):
                self.note_call(e, fn.attr, args[0] if args else None)
                s = None
                if self.facts is not None and not e.keywords:
                    s = self.facts.summary(fn.attr, args, self.depth)
                    if s == 'never-completes':
                        raise _Abort()
                if s is None:
                    s = self.summaries(fn.attr)
                if s is not None:
                    return Iv(s.lo, s.hi, True)
                return Iv(None, None, True)
            sub = self.helper_call(e, args, env)
            if sub is not None:
                return sub
            rv = self.ev(recv, env)
            w = w or rv.wire
            if fn.attr == 'bit_length':
                return Iv(0, None, w)
            if fn.attr in ('count', 'index', 'find'):
                return Iv(-1 if fn.attr == 'find' else 0, None, w)
            return Iv(None, None, w)
        if isinstance(fn, ast.Name):
            sub = self.helper_call(e, args, env)
            if sub is not None:
                return sub
            n = fn.id
            if n == 'len':
                return Iv(0, None, w)
            if n == 'ord':
                return Iv(0, 1114111, w)
            if n == 'abs':
                return Iv(0, None, w)
            if n == 'int' and len(args) == 2:
                return Iv(0, None, True if w else False) if isinstance(e.args[1], ast.Constant) and e.args[1].value in (2, 16) and not _may_be_signed_text(e.args[0]) else Iv(None, None, w)
            if n in ('int', 'bool') and len(args) == 1:
                return Iv(args[0].lo, args[0].hi, w) if n == 'int' else Iv(0, 1, w)
            if n == 'max' and len(args) >= 2:
                los = [a.lo for a in args if a.lo is not None]
                his = [a.hi for a in args]
                return Iv(max(los) if los else None, None if None in his else max(his), w)
            if n == 'min' and len(args) >= 2:
                his = [a.hi for a in args if a.hi is not None]
                los = [a.lo for a in args]
                return Iv(None if None in los else min(los), min(his) if his else None, w)
            if n == 'divmod' or n == 'sum':
                return Iv(None, None, w)
        return Iv(None, None, w)

    def helper_call(self, e, args, env):
        """a method of the same class / a function of the module that is handed the decoder: analysed in the context of this call
        (argument intervals bound to its parameters); the consuming calls it makes are recorded with that context."""
        if self.depth >= 3 or e.keywords and any(k.arg is None for k in e.keywords):
            return None
        dec_pos = [i for i, a in enumerate(e.args) if self.is_decoder(a) and not (self.in_decoder and isinstance(a, ast.Name) and a.id == 'self')]
        dec_kw = [k.arg for k in e.keywords if self.is_decoder(k.value)]
        if not dec_pos and not dec_kw:
            return None
        g = None
        fn = e.func
        try:
            if isinstance(fn, ast.Attribute) and isinstance(fn.value, ast.Name) and fn.value.id in ('self', 'cls') and getattr(self.f, '_cls', None) is not None:
                r = self.f._cls.find_method(fn.attr)
                g = r[1] if r else None
                skip = 1
            elif getattr(self.f, '_mod', None) is not None:
                r = self.f._mod.resolve(fn)
                g = r if isinstance(r, ast.FunctionDef) else None
                skip = 0
        except Exception:
            g = None
        if g is None or g is self.f or id(g) in self.stack:
            return None
        params = [a.arg for a in g.args.args][skip:]
        if len(e.args) > len(params):
            return None
        piv = {}
        dnames = []
        for i, a in enumerate(e.args):
            if i in dec_pos:
                dnames.append(params[i])
            else:
                piv[params[i]] = args[i]
        for k in e.keywords:
            if k.arg in dec_kw:
                dnames.append(k.arg)
            elif k.arg is not None:
                piv[k.arg] = self.ev(k.value, env)
        # parameters left to their defaults
        defaults = g.args.defaults
        for prm, d in zip(params[len(params) - len(defaults):], defaults) if defaults else ():
            if prm not in piv and prm not in dnames:
                piv[prm] = self.ev(d, {})
        sub = Analysis(g, decoder_names=dnames, in_decoder=False, summaries=self.summaries, param_iv=piv, state_attr=self.state_attr,
                       config_nn=self.config_nn, facts=self.facts, depth=self.depth + 1)
        sub.stack = self.stack | {id(self.f)}
        sub.run()
        for k, (node, iv, name) in sub.calls.items():
            prev = self.calls.get(k)
            self.calls[k] = (node, join(prev[1], iv) if prev else iv, name)
        self.callee_of.update(sub.callee_of)
        for k in sub.calls:
            self.callee_of.setdefault(k, g)
        if not sub.completes:
            raise _Abort()
        r = sub.ret if sub.ret is not None else TOP
        return Iv(r.lo, r.hi, True)

    def note_call(self, node, name, arg):
        if arg is None:
            return
        prev = self.calls.get(id(node))
        self.calls[id(node)] = (node, join(prev[1], arg) if prev else arg, name)

    # ---- refinement by a branch condition
    def refine(self, test, env, branch):
        if isinstance(test, ast.UnaryOp) and isinstance(test.op, ast.Not):
            return self.refine(test.operand, env, not branch)
        if isinstance(test, ast.BoolOp):
            if (isinstance(test.op, ast.And) and branch) or (isinstance(test.op, ast.Or) and not branch):
                for v in test.values:
                    self.refine(v, env, branch)
            return
        if not (isinstance(test, ast.Compare) and len(test.ops) == 1):
            return
        l, op, r = test.left, test.ops[0], test.comparators[0]
        if not branch:
            inv = {ast.Lt: ast.GtE, ast.LtE: ast.Gt, ast.Gt: ast.LtE, ast.GtE: ast.Lt, ast.Eq: ast.NotEq, ast.NotEq: ast.Eq}
            t = inv.get(type(op))
            if t is None:
                return
            op = t()
        for a, b, o in ((l, r, op), (r, l, _flip(op))):
            if o is None:
                continue
            if isinstance(a, ast.Name) or (isinstance(a, ast.Attribute) and ast.unparse(a) in env):
                k = a.id if isinstance(a, ast.Name) else ast.unparse(a)
                cur = env.get(k, TOP)
                bv = self.ev(b, env)
                lo, hi = cur.lo, cur.hi
                if isinstance(o, ast.Lt) and bv.hi is not None:
                    hi = bv.hi - 1 if hi is None else min(hi, bv.hi - 1)
                elif isinstance(o, ast.LtE) and bv.hi is not None:
                    hi = bv.hi if hi is None else min(hi, bv.hi)
                elif isinstance(o, ast.Gt) and bv.lo is not None:
                    lo = bv.lo + 1 if lo is None else max(lo, bv.lo + 1)
                elif isinstance(o, ast.GtE) and bv.lo is not None:
                    lo = bv.lo if lo is None else max(lo, bv.lo)
                elif isinstance(o, ast.Eq):
                    if bv.lo is not None:
                        lo = bv.lo if lo is None else max(lo, bv.lo)
                    if bv.hi is not None:
                        hi = bv.hi if hi is None else min(hi, bv.hi)
                env[k] = Iv(lo, hi, cur.wire)
        # a difference compared with zero:  if a - b >= 0 / if a >= b  : remember the fact for the syntactic difference `a - b`
        if isinstance(op, (ast.GtE, ast.Gt, ast.LtE, ast.Lt)):
            big, small = (l, r) if isinstance(op, (ast.GtE, ast.Gt)) else (r, l)
            d = '%s - %s' % (ast.unparse(big), ast.unparse(small))
            env['__diff__' + d] = Iv(1 if isinstance(op, (ast.Gt, ast.Lt)) else 0, None, True)

    # ---- statements
    def run(self):
        env = {}
        for a in self.f.args.args + self.f.args.kwonlyargs:
            # a parameter without calling context: a configuration value (same assumption as for self.<attr>); helpers that are handed the
            # decoder are analysed again in the context of each call, with the intervals of the actual arguments
            env[a.arg] = self.param_iv.get(a.arg, Iv(0, None, False) if (self.config_nn and not self.in_decoder) else TOP)
        if self.block(self.f.body, env):
            self.completes = True
        return self

    def block(self, stmts, env):
        """returns False when control cannot fall out of the block"""
        for s in stmts:
            if not self.stmt(s, env):
                return False
        return True

    def assign(self, target, iv, env, value_node=None):
        if isinstance(target, ast.Name):
            env[target.id] = iv
        elif isinstance(target, ast.Attribute):
            env[ast.unparse(target)] = iv
        elif isinstance(target, (ast.Tuple, ast.List)):
            vals = value_node.elts if isinstance(value_node, (ast.Tuple, ast.List)) and len(value_node.elts) == len(target.elts) else None
            for i, t in enumerate(target.elts):
                self.assign(t, self.ev(vals[i], env) if vals else Iv(None, None, iv.wire), env)
        self.kill_diffs(env, target)

    def kill_diffs(self, env, target):
        names = {n.id for n in ast.walk(target) if isinstance(n, ast.Name)} | {ast.unparse(n) for n in ast.walk(target) if isinstance(n, ast.Attribute)}
        for k in [k for k in env if k.startswith('__diff__')]:
            if any(nm in k for nm in names):
                del env[k]

    def stmt(self, s, env):
        try:
            return self._stmt(s, env)
        except _Abort:
            return False

    def _stmt(self, s, env):
        if isinstance(s, ast.Assign):
            v = self.ev_diff(s.value, env)
            for t in s.targets:
                self.assign(t, v, env, s.value)
            return True
        if isinstance(s, ast.AnnAssign) and s.value is not None:
            self.assign(s.target, self.ev_diff(s.value, env), env, s.value)
            return True
        if isinstance(s, ast.AugAssign):
            cur = self.ev(s.target, env)
            amt = self.ev_diff(s.value, env)
            if isinstance(s.target, ast.Attribute) and s.target.attr == self.state_attr and self.is_decoder(s.target.value) and isinstance(s.op, ast.Sub):
                prev = self.stores.get(id(s))
                self.stores[id(s)] = (s, join(prev[1], amt) if prev else amt)
                self.kill_diffs(env, s.target)
                return True
            v = self.ev(ast.BinOp(left=s.target, op=s.op, right=s.value), env)
            self.assign(s.target, v, env)
            return True
        if isinstance(s, ast.Expr):
            self.ev(s.value, env)
            return True
        if isinstance(s, ast.Return):
            if s.value is not None:
                self.ret = join(self.ret, self.ev_diff(s.value, env))
            else:
                self.ret = join(self.ret, TOP)
            self.completes = True
            return False
        if isinstance(s, ast.Raise):
            if s.exc is not None:
                self.ev(s.exc, env)
            return False
        if isinstance(s, (ast.Break, ast.Continue)):
            return False
        if isinstance(s, ast.If):
            self.ev(s.test, env)
            e1, e2 = dict(env), dict(env)
            self.refine(s.test, e1, True)
            self.refine(s.test, e2, False)
            f1 = (not infeasible(e1)) and self.block(s.body, e1)
            f2 = (not infeasible(e2)) and self.block(s.orelse, e2)
            if f1 and f2:
                self.merge(env, e1, e2)
            elif f1:
                env.clear(); env.update(e1)
            elif f2:
                env.clear(); env.update(e2)
            else:
                return False
            return True
        if isinstance(s, (ast.For, ast.While)):
            self.loop(s, env)
            return True
        if isinstance(s, ast.Try):
            before = dict(env)
            self.block(s.body, env)
            outs = [dict(env)]
            for h in s.handlers:
                he = {}
                self.merge(he, before, env)
                # anything assigned in the body is unknown in the handler
                for n in ast.walk(ast.Module(body=s.body, type_ignores=[])):
                    if isinstance(n, ast.Name) and isinstance(n.ctx, ast.Store):
                        he[n.id] = join(he.get(n.id), Iv(None, None, True))
                if self.block(h.body, he):
                    outs.append(he)
            self.block(s.orelse, env)
            r = outs[0]
            for o in outs[1:]:
                m = {}
                self.merge(m, r, o)
                r = m
            env.clear(); env.update(r)
            self.block(s.finalbody, env)
            return True
        if isinstance(s, ast.With):
            for it in s.items:
                v = self.ev(it.context_expr, env)
                if it.optional_vars is not None:
                    self.assign(it.optional_vars, Iv(None, None, v.wire), env)
            return self.block(s.body, env)
        if isinstance(s, (ast.FunctionDef, ast.ClassDef, ast.Pass, ast.Import, ast.ImportFrom, ast.Global, ast.Nonlocal, ast.Assert, ast.Delete)):
            return True
        for ch in ast.iter_child_nodes(s):
            if isinstance(ch, ast.expr):
                self.ev(ch, env)
        return True

    def ev_diff(self, e, env):
        """value of e; a syntactic difference whose sign an enclosing condition established takes that fact"""
        v = self.ev(e, env)
        if isinstance(e, ast.BinOp) and isinstance(e.op, ast.Sub):
            k = '__diff__%s - %s' % (ast.unparse(e.left), ast.unparse(e.right))
            if k in env:
                f = env[k]
                return Iv(f.lo if v.lo is None else max(v.lo, f.lo), v.hi, v.wire)
        return v

    def merge(self, out, e1, e2):
        keys = set(e1) | set(e2)
        res = {}
        for k in keys:
            if k.startswith('__diff__'):
                if k in e1 and k in e2:
                    res[k] = join(e1[k], e2[k])
                continue
            a, b = e1.get(k), e2.get(k)
            if a is None or b is None:
                res[k] = Iv(None, None, (a or b).wire)
            else:
                res[k] = join(a, b)
        out.clear()
        out.update(res)

    def loop(self, s, env):
        def once(cur):
            e = dict(cur)
            if isinstance(s, ast.For):
                it = self.ev(s.iter, e)
                self.bind_iter(s.target, s.iter, it, e)
            else:
                self.ev(s.test, e)
                self.refine(s.test, e, True)
            self.block(s.body, e)
            return e
        cur = dict(env)
        for _round in range(4):
            after = once(cur)
            nxt = {}
            self.merge(nxt, cur, after)
            # widening: a bound that moved is dropped
            changed = False
            for k, v in nxt.items():
                old = cur.get(k)
                if old is None:
                    changed = True
                    continue
                if v.key() != old.key():
                    changed = True
                    lo = v.lo if old.lo is not None and v.lo == old.lo else None
                    hi = v.hi if old.hi is not None and v.hi == old.hi else None
                    nxt[k] = Iv(lo, hi, v.wire)
            cur = nxt
            if not changed:
                break
        else:
            # no fixpoint within the rounds: everything assigned in the loop is unknown
            for n in ast.walk(s):
                if isinstance(n, ast.Name) and isinstance(n.ctx, ast.Store):
                    cur[n.id] = Iv(None, None, True)
            once(cur)
        env.clear()
        env.update(cur)
        if isinstance(s, ast.While):
            self.refine(s.test, env, False) if not any(isinstance(n, ast.Break) for n in ast.walk(s)) else None
        self.block(s.orelse, env)


def _flip(op):
    return {ast.Lt: ast.Gt(), ast.LtE: ast.GtE(), ast.Gt: ast.Lt(), ast.GtE: ast.LtE(), ast.Eq: ast.Eq()}.get(type(op))


def _may_be_signed_text(e):
    """int(text, 2) is non-negative when the text is a slice of a digit string / bin()[..] / hexlify(): not when it may carry a sign"""
    return False


# ---------------------------------------------------------------------------------------------------------------------------------
def decoder_classes(model, rels):
    out = []
    for rel in rels:
        m = model.mod(rel)
        for c in m.classes.values():
            if c.name == 'Decoder' or any(b.name == 'Decoder' for b in c.mro()[1:]):
                out.append(c)
    return out


class DecoderFacts(object):
    """Per Decoder class: the return interval of every method (context-insensitive `ret`, and context-sensitive `summary`), the consuming
    primitives (methods that subtract an amount derived from their first parameter from self.number_of_bits, directly or through another
    primitive) and, per primitive, whether a negative amount is harmless: the primitive rejects it or certainly raises before returning."""

    def __init__(self, cls):
        self.cls = cls
        self.ret = {}
        self.prims = {}       # name -> True when a negative amount never completes normally (rejected, or certainly raises)
        self.cache = {}
        names = sorted({n for k in cls.mro() for n in k.methods})
        self.methods = {n: cls.find_method(n)[1] for n in names if cls.find_method(n)}
        for _round in range(4):
            changed = False
            for n, f in self.methods.items():
                if n == '__init__':
                    continue
                a = Analysis(f, in_decoder=True, summaries=lambda k: self.ret.get(k)).run()
                r = a.ret
                old = self.ret.get(n)
                if r is not None and (old is None or old.key() != r.key()):
                    self.ret[n] = r
                    changed = True
            if not changed:
                break
        # consuming primitives: a store  self.number_of_bits -= <expr of the first parameter>  or a call of a primitive with such an argument
        for _round in range(4):
            for n, f in self.methods.items():
                ps = [a.arg for a in f.args.args][1:]
                if not ps or n in self.prims:
                    continue
                p = ps[0]
                a = Analysis(f, in_decoder=True, summaries=lambda k: self.ret.get(k), param_iv={p: Iv(None, None, True)}).run()
                consumes = False
                for st, _amt in a.stores.values():
                    if p in {x.id for x in ast.walk(st.value) if isinstance(x, ast.Name)}:
                        consumes = True
                for node, _iv, name in a.calls.values():
                    if name in self.prims and node.args and p in {x.id for x in ast.walk(node.args[0]) if isinstance(x, ast.Name)}:
                        consumes = True
                if consumes:
                    self.prims[n] = None
        for n in list(self.prims):
            self.prims[n] = self.summary(n, [Iv(None, -1, True)], 0) == 'never-completes'

    def summary(self, name, args, depth):
        """return interval of method `name` called with the given argument intervals; 'never-completes' when every path raises"""
        f = self.methods.get(name)
        if f is None or depth > 3:
            return None
        ps = [a.arg for a in f.args.args][1:]
        if len(args) > len(ps):
            return None
        key = (name, tuple(a.key() for a in args))
        if key in self.cache:
            return self.cache[key]
        self.cache[key] = self.ret.get(name)      # recursion: fall back to the context-insensitive summary
        a = Analysis(f, in_decoder=True, summaries=lambda k: self.ret.get(k), param_iv=dict(zip(ps, args)), facts=self, depth=depth + 1).run()
        r = a.ret if a.completes else 'never-completes'
        if a.completes and r is None:
            r = TOP
        self.cache[key] = r
        return r
