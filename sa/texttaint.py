"""E12: text that a child encoder produced is final.

In the text codecs that build their output by string composition (GSER), a container receives the finished text of its children and
puts it between its own delimiters.  Layout (line breaks, indentation) is handed *down* as parameters; it is never applied *afterwards*
to finished text, because finished text may contain character-string values in which a line break, a comma or a brace is data.
The rule: a value that derives from a child's encode() result reaches the returned text only through composition (format, join, +);
it never is the receiver or argument of an operation that rewrites text by content (replace, re.sub, strip, split, slicing, case
changes, textwrap), in the method itself or in a helper it is handed to."""
import ast

from .model import walk_no_nested
from . import flow

REWRITES = ('replace', 'strip', 'lstrip', 'rstrip', 'split', 'rsplit', 'splitlines', 'lower', 'upper', 'translate', 'expandtabs', 'partition', 'rpartition', 'title', 'swapcase',
            'removeprefix', 'removesuffix', 'zfill', 'center', 'ljust', 'rjust')
REWRITE_FUNCS = ('re.sub', 're.subn', 're.split', 'textwrap.indent', 'textwrap.dedent', 'textwrap.fill', 'textwrap.wrap')
CHILD_METHODS = ('encode', 'encode_of')


def _is_child_encode(call, params):
    """<something that is not a parameter holding the value>.encode(<value>, ...) with at least one argument that is not a text encoding name"""
    if not (isinstance(call, ast.Call) and isinstance(call.func, ast.Attribute) and call.func.attr in CHILD_METHODS and call.args):
        return False
    a0 = call.args[0]
    if isinstance(a0, ast.Constant) and isinstance(a0.value, str):
        return False                 # str.encode('ascii')
    if isinstance(a0, ast.Attribute) and 'ENCODING' in a0.attr.upper():
        return False
    recv = call.func.value
    root = recv
    while isinstance(root, (ast.Attribute, ast.Subscript)):
        root = root.value
    if isinstance(root, ast.Name) and root.id in params and root.id != 'self':
        return False                 # the value itself (data.encode(...))
    if isinstance(root, ast.Call) and isinstance(root.func, ast.Name) and root.func.id == 'super':
        return False
    return True


def tainted_names(f, seeds=()):
    """names of f that hold (or collect) text derived from a child encoder's result; seeds: parameter names that already do"""
    params = set(flow.param_names(f))
    taint = set(seeds)

    def tainted(e):
        for n in ast.walk(e):
            if isinstance(n, ast.Name) and n.id in taint:
                return True
            if _is_child_encode(n, params):
                return True
        return False
    changed = True
    while changed:
        changed = False
        for n in walk_no_nested(f):
            tg = []
            val = None
            if isinstance(n, ast.Assign):
                tg, val = n.targets, n.value
            elif isinstance(n, ast.AugAssign):
                tg, val = [n.target], n.value
            elif isinstance(n, (ast.For, ast.comprehension)):
                tg, val = [n.target], n.iter
            elif isinstance(n, ast.Call) and isinstance(n.func, ast.Attribute) and n.func.attr in ('append', 'extend', 'insert', 'add') and isinstance(n.func.value, ast.Name):
                if any(tainted(a) for a in n.args) and n.func.value.id not in taint:
                    taint.add(n.func.value.id)
                    changed = True
                continue
            if val is not None and tainted(val):
                for t in tg:
                    for x in ast.walk(t):
                        if isinstance(x, ast.Name) and x.id not in taint:
                            taint.add(x.id)
                            changed = True
    return taint, tainted


def rewrites_of_encoded_text(f, mod, cls=None, seeds=(), depth=0):
    """[(node, description)]: operations in f (and in helpers it hands encoded text to) that rewrite child-encoded text by content"""
    out = []
    taint, tainted = tainted_names(f, seeds)
    for n in walk_no_nested(f):
        if isinstance(n, ast.Call):
            fn = ast.unparse(n.func)
            if isinstance(n.func, ast.Attribute) and n.func.attr in REWRITES and tainted(n.func.value):
                if n.func.attr in ('strip', 'lstrip', 'rstrip') and (not n.args or (isinstance(n.args[0], ast.Constant) and isinstance(n.args[0].value, str)
                                                                                    and not n.args[0].value.strip())):
                    continue        # white-space at the two ends of finished text is layout: values are delimited (quotes, braces), so an end is never data
                out.append((n, '`%s`' % ast.unparse(n)[:80]))
            elif fn in REWRITE_FUNCS and any(tainted(a) for a in n.args):
                out.append((n, '`%s`' % ast.unparse(n)[:80]))
            elif depth < 2:
                g = None
                gparams = None
                if isinstance(n.func, ast.Name):
                    r = mod.resolve_name(n.func.id)
                    if isinstance(r, ast.FunctionDef):
                        g, gparams = r, flow.param_names(r)
                elif isinstance(n.func, ast.Attribute) and isinstance(n.func.value, ast.Name) and n.func.value.id in ('self', 'cls') and cls is not None \
                        and n.func.attr not in CHILD_METHODS:
                    r = cls.find_method(n.func.attr)
                    if r:
                        g, gparams = r[1], [p for p in flow.param_names(r[1]) if p != 'self']
                if g is not None and g is not f:
                    seeds_ = {gparams[i] for i, a in enumerate(n.args) if i < len(gparams) and tainted(a)}
                    seeds_ |= {k.arg for k in n.keywords if k.arg and tainted(k.value)}
                    if seeds_:
                        for node_, what_ in rewrites_of_encoded_text(g, getattr(g, '_mod', mod), cls, seeds_, depth + 1):
                            out.append((node_, '%s in %s (handed the text by `%s`)' % (what_, g.name, ast.unparse(n)[:60])))
        elif isinstance(n, ast.Subscript) and isinstance(n.slice, ast.Slice) and isinstance(n.value, ast.Name) and n.value.id in taint and isinstance(n.ctx, ast.Load):
            # slicing a *collection* of encoded members is fine; slicing text is not: a name that is appended to is a collection
            is_list = any(isinstance(c, ast.Call) and isinstance(c.func, ast.Attribute) and c.func.attr in ('append', 'extend', 'insert') and isinstance(c.func.value, ast.Name)
                          and c.func.value.id == n.value.id for c in walk_no_nested(f))
            if not is_list:
                out.append((n, 'the slice `%s`' % ast.unparse(n)[:60]))
    return out
