#!/venv/bin/python
"""tools/make_seed_tasks.py <wave dir, e.g. /tmp/seede> <focus.json>

Prepares one scratch git worktree of /repo (at HEAD) per property under <wave dir>/Cnn and a task description <wave dir>/Cnn.out/TASK.md for a
sub-agent that is to write one subtle regression breaking that property (see DESIGN.md 9.6 / 9.10).  focus.json maps a property id to the mechanism
the change should be located in ("... -- NOT ...").  The agents get nothing from /verif: only the property record and their worktree.
Afterwards: start one agent per property with the prompt
  "Read the task description in <wave dir>/Cnn.out/TASK.md and carry it out exactly. ... Never use git stash."
and confirm the results with  tools/verify_wave.sh <suffix> <wave dir> C01 C02 ..."""
import json
import os
import subprocess
import sys

T = '''# Task: write one subtle regression for eerimoq/asn1tools

You are helping to evaluate how well a verification tool detects realistic regressions.  You work ONLY inside your own scratch
git worktree of the library: `{wt}` (a detached checkout of the asn1tools repository; the package under test is
`{wt}/asn1tools`).  Never touch `/repo`, never touch `/verif`, never read anything under `/verif`.  Write your deliverables
to `{out}/`.  IMPORTANT: never use `git stash` (the stash is shared with other people's worktrees of this repository); to test
against the unmodified tree make a clean copy with `git -C {wt} archive HEAD | tar -x -C <some new dir under /tmp>` and delete it afterwards.

## The property your change must break

Property {pid}: **{title}**

> {statement}

Where the mechanisms behind this property live (file:line hints of the unmodified tree):

{mech}

Observed at: {obs}

## What to produce

A change to the library source (under `{wt}/asn1tools/` only; do not edit tests) that a plausible contributor might make
(a tidy-up, an optimisation, a small feature, a refactoring with a slip, support for one more case, a "fix" for a corner case) and
that **breaks the property above** while

1. the package still imports and works for ordinary use, and
2. the existing test suite still gives exactly the same result as on the unmodified tree: run
   `cd {wt} && /venv/bin/python -m pytest -q -p no:cacheprovider --timeout=900 -n 4` -- the unmodified tree has 486 passing tests and
   exactly the 7 failing tests listed in `{wave}/EXPECTED_FAIL.txt` (they fail for reasons unrelated to your change: no
   network / missing files).  With your change it must still be 486 passed and the same 7 failed.

The change must need **something specific to manifest**: an unusual but valid input (a boundary value, a particular
combination of constructs in the specification), a multi-step sequence of operations, a particular history, or -- preferred -- two
cooperating sites that each look fine alone (for example a helper whose contract is changed slightly and one of several callers that
relied on the old contract).  It must NOT be something ordinary use would expose at once, and must not be a blunt deletion of a
check.  It should look like honest code: no comments hinting at the bug, sensible names.  Prefer a change whose wrongness is a matter
of *values* or of an *interaction*, not of an obviously missing statement.

Locate the change in or around: {focus}.

## Deliverables in `{out}/`

* `patch.diff` -- output of `git -C {wt} diff` (must apply with `git apply` to a clean checkout of the same commit).
* `demo.py` -- a small stand-alone program, run as `cd <checkout> && /venv/bin/python demo.py` (it must import the
  `asn1tools` package of the current directory: start with `import sys, os; sys.path.insert(0, os.getcwd())`), that exits 0
  on the unmodified tree and exits non-zero (printing what went wrong) with your change applied.  It should demonstrate
  the violation of the property as stated (e.g. a round trip that no longer yields the same value, a byte string that is no
  longer what the standard prescribes together with the expected bytes, a foreign exception, ...).  gcc is available if you need to
  compile generated C.
* `meta.json` -- `{{"property": "{pid}", "summary": "<what you changed and why it breaks the property>", "needs_to_manifest":
  "<what specific input / sequence / combination is needed>", "files_changed": [...], "author_tests_run": "<the commands
  you ran and their results>"}}`

Before you finish: verify yourself that `demo.py` passes on a clean copy of the unmodified tree, fails with the change, and that the
test suite result is unchanged.  Leave the worktree with your change applied.  Your final message should be a three-line summary.
'''


def main():
    wave, focus_file = sys.argv[1], sys.argv[2]
    focus = json.load(open(focus_file))
    os.makedirs(wave, exist_ok=True)
    base = json.load(open('/root/.vp/BASELINE.json'))
    open(os.path.join(wave, 'EXPECTED_FAIL.txt'), 'w').write('\n'.join(base['always_fail']) + '\n')
    verif = os.path.dirname(os.path.dirname(os.path.abspath(__file__)))
    for l in open(os.path.join(verif, 'properties.jsonl')):
        d = json.loads(l)
        pid = d['id']
        if pid not in focus:
            continue
        wt = os.path.join(wave, pid)
        out = wt + '.out'
        if not os.path.isdir(wt):
            subprocess.check_call(['git', '-C', '/repo', 'worktree', 'add', '-q', '--detach', wt, 'HEAD'])
        os.makedirs(out, exist_ok=True)
        mech = '\n'.join('* %s -- %s' % (m['name'], m['where']) for m in d['anchors']['mechanism'])
        open(os.path.join(out, 'TASK.md'), 'w').write(T.format(wt=wt, out=out, wave=wave, pid=pid, title=d['title'], statement=d['statement'], mech=mech,
                                                                obs='; '.join(d['anchors']['observe_at']), focus=focus[pid]))
        print(pid, wt)


if __name__ == '__main__':
    main()
