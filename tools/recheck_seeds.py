#!/venv/bin/python
"""tools/recheck_seeds.py [seed ids...]: re-run all 20 static checks against every confirmed seed under /verif/seeded
(scratch worktree of /repo at HEAD, outside /repo and /verif) and update meta.json with the rules that fire now."""
import json, os, subprocess, sys, tempfile, shutil
from concurrent.futures import ThreadPoolExecutor
VERIF = os.path.dirname(os.path.dirname(os.path.abspath(__file__)))
PY = '/venv/bin/python'


def sh(cmd, cwd=None, timeout=900):
    p = subprocess.run(cmd, cwd=cwd, shell=True, stdout=subprocess.PIPE, stderr=subprocess.STDOUT, timeout=timeout)
    return p.returncode, p.stdout.decode(errors='replace')


def one(sid):
    d = os.path.join(VERIF, 'seeded', sid)
    wt = tempfile.mkdtemp(prefix='seedchk_')
    os.rmdir(wt)
    rc, out = sh('git -C /repo worktree add -q --detach %s HEAD' % wt)
    if rc:
        return sid, None, out
    try:
        rc, out = sh('git apply %s' % os.path.join(d, 'patch.diff'), cwd=wt)
        if rc:
            return sid, None, 'patch does not apply: ' + out
        caught = {}
        env = 'VERIF_EVIDENCE_DIR=%s ' % tempfile.mkdtemp(prefix='seedev_')
        for i in range(1, 21):
            pid = 'C%02d' % i
            rc, out = sh('%s%s -m sa.run --property %s --repo %s --no-controls --keys' % (env, PY, pid, wt), cwd=VERIF)
            keys = [l for l in out.splitlines() if l.startswith('known: ')]
            if rc == 1 and keys:
                caught[pid] = sorted({l.split(' rule=')[1].split(' ')[0] + ' @ ' + l.split(' construct=')[1].split(' stmt=')[0] for l in keys})
            elif rc == 2:
                caught[pid] = ['ANALYSIS-ERROR: ' + out.strip().splitlines()[-1][:200]]
        return sid, caught, ''
    finally:
        sh('git -C /repo worktree remove --force %s' % wt)
        shutil.rmtree(wt, ignore_errors=True)


def main():
    ids = sys.argv[1:] or sorted(os.listdir(os.path.join(VERIF, 'seeded')))
    with ThreadPoolExecutor(max_workers=5) as ex:
        for sid, caught, err in ex.map(one, ids):
            if caught is None:
                print(sid, 'ERROR', err)
                continue
            mp = os.path.join(VERIF, 'seeded', sid, 'meta.json')
            m = json.load(open(mp))
            prop = m.get('breaks_property', sid[:3])
            own = prop in caught and not all(x.startswith('ANALYSIS-ERROR') for x in caught[prop])
            m['static_checks_reporting_a_new_violation'] = caught
            m['caught_by_own_property_check'] = own
            json.dump(m, open(mp, 'w'), indent=1)
            print(sid, 'own=%s' % own, {k: v for k, v in caught.items()})


if __name__ == '__main__':
    main()
