#!/bin/bash
# usage: tools/one_refac.sh <refactor id> <prop...> : run the given checks (verbose findings) against a scratch worktree with refactors/<id>/patch.diff
R=$1; shift
WT=/tmp/vt
[ -d $WT ] || git -C /repo worktree add -q --detach $WT HEAD
git -C $WT checkout -q --detach $(git -C /repo rev-parse HEAD) 2>/dev/null; git -C $WT checkout -q -- . ; git -C $WT clean -qfd
git -C $WT apply /verif/refactors/$R/patch.diff || exit 3
cd /verif
for p in "$@"; do
  /venv/bin/python -m sa.run --property $p --repo $WT --no-controls -v 2>&1 | grep -v "^KNOWN-FINDING" | grep -A${CTX:-3} "^  C[0-9][0-9]\.R[0-9a-z]* asn1\|ANALYSIS-ERROR\|Traceback\|^C[0-9][0-9] quick" | cut -c1-${CUT:-900}
done
