#!/venv/bin/python
"""usage: tools/paths.py <repo> <rel> <qual> [inline]: dump the sem path summaries of a function."""
import sys
sys.path.insert(0, '/verif')
from sa.model import Model
from sa import sem
repo, rel, qual = sys.argv[1:4]
m = Model(repo)
f = m.func(rel, qual)
res = None
if len(sys.argv) > 4:
    cls = getattr(f, '_cls', None)
    res = sem.class_resolver(cls) if cls is not None else None
for p in sem.paths(f, resolver=res):
    print(p.show())
    for ev in p.events:
        print('     ', ev[0], str(ev[1])[:120], ('-> ' + __import__('ast').unparse(ev[3])[:100]) if ev[0] == 'call' and len(ev) > 3 and ev[3] is not None else '')
    print('---')
