#!/bin/bash
# usage: tools/prop_cycle.sh Cxx [tier] : the check on /repo with controls, then on every refactor patch (must be silent)
P=$1; TIER=${2:-thorough}
cd /verif
timeout 900 /venv/bin/python -m sa.run --property $P --tier $TIER 2>&1 > /tmp/cycle_clean.log; rc=$?
grep -v "^KNOWN-FINDING" /tmp/cycle_clean.log | tail -${TAILN:-8} | cut -c1-500
[ $rc -ne 0 ] && { echo "clean tree rc=$rc -- refactors skipped"; exit 1; }
WT=/tmp/vt
[ -d $WT ] || git -C /repo worktree add -q --detach $WT HEAD
for R in /verif/refactors/*/patch.diff; do
  git -C $WT checkout -q --detach $(git -C /repo rev-parse HEAD) 2>/dev/null; git -C $WT checkout -q -- . ; git -C $WT clean -qfd
  git -C $WT apply $R 2>/dev/null || { echo "$R: does not apply"; continue; }
  out=$(timeout 300 /venv/bin/python -m sa.run --property $P --repo $WT --no-controls -v 2>&1); rc=$?
  if [ $rc -ne 0 ]; then echo "### $(basename $(dirname $R)) rc=$rc"; echo "$out" | grep -v "^KNOWN-FINDING" | grep -A3 "^  C[0-9][0-9]\.R[0-9a-z]* asn1\|ANALYSIS-ERROR\|Error" | grep -v "^VIOLATION\|^--" | cut -c1-${CUT:-600}; fi
done
git -C $WT checkout -q -- . ; git -C $WT clean -qfd
