#!/venv/bin/python
"""usage: tools/instances.py <prop> <repo> [rule substring]: list the rule instances (construct, verdict, note) a check records."""
import sys, importlib
sys.path.insert(0, '/verif')
from sa import core
from sa.model import Model
prop, repo = sys.argv[1:3]
pat = sys.argv[3] if len(sys.argv) > 3 else ''
mod = importlib.import_module('sa.props.' + prop)
ctx = core.Ctx(prop, Model(repo))
try:
    mod.check(ctx)
except Exception as e:
    print('ERROR', type(e).__name__, e)
for rid, cons, verdict, note, nt in ctx.instances:
    if pat in rid:
        print(rid, '|', cons, '|', verdict, '|', note[:200])
