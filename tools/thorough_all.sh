#!/bin/bash
# usage: tools/thorough_all.sh [tier]: every check against /repo itself (controls on), 8 at a time; prints the summary line of each
cd /verif
T=${1:-thorough}
seq -w 1 20 | xargs -P 8 -I{} bash -c "timeout 1800 /venv/bin/python -m sa.run --property C{} --tier $T 2>&1 | grep -v '^KNOWN-FINDING' | tail -${TAILN:-1} | sed 's/^/[C{}] /'"
