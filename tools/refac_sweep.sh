#!/bin/bash
# run all checks against every refactor patch under /tmp/refac/R*.out and /verif/refactors/*/patch.diff; print compact summary
cd /verif
for P in ${PATCHES:-/verif/refactors/*/patch.diff}; do
  [ -f "$P" ] || continue
  WT=${WT:-/tmp/vt}
  git -C $WT checkout -q --detach $(git -C /repo rev-parse HEAD) 2>/dev/null; git -C $WT checkout -q -- . ; git -C $WT clean -qfd
  git -C $WT apply "$P" 2>/dev/null || { echo "$P: does not apply"; continue; }
  echo "### $P"
  for i in $(seq -w 1 20); do
    out=$(timeout 300 /venv/bin/python -m sa.run --property C$i --repo $WT --no-controls 2>&1); rc=$?
    if [ $rc -ne 0 ]; then echo "$out" | grep -v "^KNOWN-FINDING" | grep -E "^  C[0-9]+\.R|ANALYSIS" | cut -c1-${CUT:-170}; fi
  done
done
git -C ${WT:-/tmp/vt} checkout -q -- . ; git -C ${WT:-/tmp/vt} clean -qfd
