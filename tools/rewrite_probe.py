#!/venv/bin/python
"""tools/rewrite_probe.py <kind> <dst>: copy /repo (HEAD) to <dst> and rewrite every module of the package mechanically, behaviour preserved
by construction; the checks must stay silent on the result (python -m sa.run --property Cxx --no-controls --repo <dst>).

kinds:  unparse  ast.unparse of every module (comments gone, every expression on one line)
        explode  every call argument / list element on its own line
        neg      `if c: A else: B`  ->  `if not c: B else: A`
        rev      methods of every class in reverse order
        doc      a docstring added to every function without one
        flat     `if c: ...return  else: R`  ->  `if c: ...return` ; R
        unflat   the reverse of flat
        cmp      operands of simple comparisons swapped (a < b -> b > a)
        tmp      `return e`  ->  `result_ = e` ; `return result_`
See DESIGN.md 9.16.  Remove <dst> afterwards.
"""
import ast, glob, sys, os, subprocess
kind, dst = sys.argv[1], sys.argv[2]
subprocess.check_call('rm -rf %s && mkdir -p %s && cd /repo && git archive HEAD | tar -x -C %s' % (dst, dst, dst), shell=True)
os.chdir(dst)
class Neg(ast.NodeTransformer):
    def visit_If(self, node):
        self.generic_visit(node)
        if node.orelse and not (len(node.orelse) == 1 and isinstance(node.orelse[0], ast.If)):
            t = node.test
            if isinstance(t, ast.UnaryOp) and isinstance(t.op, ast.Not):
                nt = t.operand
            else:
                nt = ast.UnaryOp(op=ast.Not(), operand=t)
            node.test = nt
            node.body, node.orelse = node.orelse, node.body
        return node
class Rev(ast.NodeTransformer):
    def visit_ClassDef(self, node):
        self.generic_visit(node)
        names = [s.name for s in node.body if isinstance(s, ast.FunctionDef)]
        if len(names) != len(set(names)):
            return node
        out, run = [], []
        for s in node.body:
            if isinstance(s, ast.FunctionDef) and not s.decorator_list:
                run.append(s)
            else:
                out += run[::-1]; run = []; out.append(s)
        out += run[::-1]
        node.body = out
        return node
class Doc(ast.NodeTransformer):
    def visit_FunctionDef(self, node):
        self.generic_visit(node)
        has_doc = node.body and isinstance(node.body[0], ast.Expr) and isinstance(node.body[0].value, ast.Constant) and isinstance(node.body[0].value.value, str)
        if not has_doc:
            node.body = [ast.Expr(ast.Constant('Documentation of %s.' % node.name))] + node.body
        return node
def term(stmts):
    return bool(stmts) and isinstance(stmts[-1], (ast.Return, ast.Raise, ast.Continue, ast.Break))
def blocks(node):
    for f in ('body', 'orelse', 'finalbody'):
        v = getattr(node, f, None)
        if isinstance(v, list) and v and isinstance(v[0], ast.stmt):
            yield f, v
class Flat(ast.NodeTransformer):
    # if c: ...return  else: rest   ->  if c: ...return ; rest
    def generic_visit(self, node):
        super().generic_visit(node)
        for f, v in list(blocks(node)):
            out = []
            for s in v:
                if isinstance(s, ast.If) and s.orelse and term(s.body):
                    rest, s.orelse = s.orelse, []
                    out.append(s); out.extend(rest)
                else:
                    out.append(s)
            setattr(node, f, out)
        return node
class Unflat(ast.NodeTransformer):
    # if c: ...return ; rest  ->  if c: ...return  else: rest
    def generic_visit(self, node):
        super().generic_visit(node)
        for f, v in list(blocks(node)):
            for i, s in enumerate(v):
                if isinstance(s, ast.If) and not s.orelse and term(s.body) and v[i + 1:]:
                    s.orelse = v[i + 1:]
                    setattr(node, f, v[:i + 1])
                    break
        return node
SW = {ast.Lt: ast.Gt, ast.Gt: ast.Lt, ast.LtE: ast.GtE, ast.GtE: ast.LtE, ast.Eq: ast.Eq, ast.NotEq: ast.NotEq}
def simple(e):
    return isinstance(e, (ast.Name, ast.Constant)) or (isinstance(e, ast.Attribute) and simple(e.value))
class Cmp(ast.NodeTransformer):
    def visit_Compare(self, node):
        self.generic_visit(node)
        if len(node.ops) == 1 and type(node.ops[0]) in SW and simple(node.left) and simple(node.comparators[0]):
            return ast.Compare(node.comparators[0], [SW[type(node.ops[0])]()], [node.left])
        return node
class Tmp(ast.NodeTransformer):
    def generic_visit(self, node):
        super().generic_visit(node)
        for f, v in list(blocks(node)):
            out = []
            for s in v:
                if isinstance(s, ast.Return) and s.value is not None and not isinstance(s.value, (ast.Name, ast.Constant)):
                    out.append(ast.Assign([ast.Name('result_', ast.Store())], s.value))
                    out.append(ast.Return(ast.Name('result_', ast.Load())))
                else:
                    out.append(s)
            setattr(node, f, out)
        return node
class Explode(ast._Unparser):
    depth_f = 0

    def sep(self):
        if self.depth_f:
            self.write(", ")
        else:
            self.write(",\n" + "    " * (self._indent + 2))

    def visit_JoinedStr(self, node):
        self.depth_f += 1
        try:
            super().visit_JoinedStr(node)
        finally:
            self.depth_f -= 1

    def visit_List(self, node):
        with self.delimit("[", "]"):
            if node.elts and not self.depth_f:
                self.write("\n" + "    " * (self._indent + 2))
            self.interleave(self.sep, self.traverse, node.elts)

    def visit_Call(self, node):
        self.set_precedence(ast._Precedence.ATOM, node.func)
        self.traverse(node.func)
        with self.delimit("(", ")"):
            comma = False
            for e in list(node.args) + list(node.keywords):
                if comma:
                    self.sep()
                else:
                    comma = True
                self.traverse(e)


class Same(ast.NodeTransformer):
    pass
T = {'neg': Neg, 'rev': Rev, 'doc': Doc, 'flat': Flat, 'unflat': Unflat, 'cmp': Cmp, 'tmp': Tmp, 'unparse': Same, 'explode': Same}[kind]
n = 0
for f in glob.glob('asn1tools/**/*.py', recursive=True):
    t0 = ast.parse(open(f).read())
    t = ast.fix_missing_locations(T().visit(t0))
    out = Explode().visit(t) if kind == 'explode' else ast.unparse(t)
    if kind in ('unparse', 'explode'):
        assert ast.dump(ast.parse(out)) == ast.dump(ast.parse(open(f).read())), f
    open(f, 'w').write(out + '\n')
    n += 1
print(kind, n, 'modules rewritten in', dst)
