#!/venv/bin/python
"""tools/verify_seed.py <seed id> <patch.diff> <demo.py> <meta.json> [--origin TEXT]

Confirms a seeded regression in a scratch worktree of /repo at HEAD (outside /repo and /verif):
  (1) the patch applies, (2) demo.py passes without it and fails with it, (3) the pinned test suite
  still has exactly the 7 expected failures with the patch, (4) runs all 20 static checks against the
  patched tree and records which rules report a new (unlisted) violation.
Writes /verif/seeded/<id>/{patch.diff,demo.py,meta.json}.  /repo itself is never modified."""
import json
import os
import shutil
import subprocess
import sys
import tempfile

VERIF = os.path.dirname(os.path.dirname(os.path.abspath(__file__)))
PY = '/venv/bin/python'
EXPECTED_FAIL = set(json.load(open('/root/.vp/BASELINE.json'))['always_fail'])


def sh(cmd, cwd=None, timeout=1800):
    p = subprocess.run(cmd, cwd=cwd, shell=True, stdout=subprocess.PIPE, stderr=subprocess.STDOUT, timeout=timeout)
    return p.returncode, p.stdout.decode(errors='replace')


def main():
    sid, patch, demo, meta = sys.argv[1:5]
    origin = sys.argv[6] if len(sys.argv) > 6 and sys.argv[5] == '--origin' else ''
    skip_tests = '--skip-tests' in sys.argv
    wt = tempfile.mkdtemp(prefix='seedwt_')
    os.rmdir(wt)
    rc, out = sh('git -C /repo worktree add -q --detach %s HEAD' % wt)
    if rc:
        print(out)
        return 3
    res = {'seed': sid}
    try:
        m = json.load(open(meta))
        prop = m.get('property', sid[:3])
        # (2a) demo on the clean tree
        rc0, out0 = sh('%s %s' % (PY, os.path.abspath(demo)), cwd=wt, timeout=600)
        res['demo_clean'] = 'pass' if rc0 == 0 else 'FAIL(rc=%d)' % rc0
        # (1)
        rc, out = sh('git apply %s' % os.path.abspath(patch), cwd=wt)
        res['applies'] = rc == 0
        if rc:
            print(out)
            return 3
        rc1, out1 = sh('%s %s' % (PY, os.path.abspath(demo)), cwd=wt, timeout=900)
        res['demo_patched'] = 'fails' if rc1 != 0 else 'PASSES'
        res['demo_output_tail'] = out1.strip().splitlines()[-3:]
        # (3)
        if not skip_tests:
            junit = os.path.join(wt, 'junit.xml')
            rc, out = sh('%s -m pytest -q -p no:cacheprovider --timeout=900 -n 12 --junitxml=%s' % (PY, junit), cwd=wt, timeout=3000)
            import xml.etree.ElementTree as ET
            failed = set()
            passed = 0
            for tc in ET.parse(junit).getroot().iter('testcase'):
                name = '%s::%s' % (tc.get('classname'), tc.get('name'))
                if tc.find('failure') is not None or tc.find('error') is not None:
                    failed.add(name)
                elif tc.find('skipped') is None:
                    passed += 1
            res['tests'] = {'passed': passed, 'failed': sorted(failed), 'only_expected_failures': failed == EXPECTED_FAIL}
        # (4) static checks: new unlisted findings relative to the unpatched tree
        caught = {}
        for i in range(1, 21):
            pid = 'C%02d' % i
            rc, out = sh('%s -m sa.run --property %s --repo %s --no-controls --keys' % (PY, pid, wt), cwd=VERIF, timeout=600)
            keys = [l for l in out.splitlines() if l.startswith('known: ')]
            if rc == 1 and keys:
                caught[pid] = sorted({l.split(' rule=')[1].split(' ')[0] + ' @ ' + l.split(' construct=')[1].split(' stmt=')[0] for l in keys})
            elif rc == 2:
                caught[pid] = ['ANALYSIS-ERROR: ' + out.strip().splitlines()[-1][:200]]
        res['caught_by'] = caught
        res['caught_by_own_property'] = prop in caught and not all(x.startswith('ANALYSIS-ERROR') for x in caught[prop])
        ok = res['demo_clean'] == 'pass' and res['demo_patched'] == 'fails' and (skip_tests or res['tests']['only_expected_failures'])
        res['confirmed'] = ok
        d = os.path.join(VERIF, 'seeded', sid)
        os.makedirs(d, exist_ok=True)
        shutil.copy(patch, os.path.join(d, 'patch.diff'))
        shutil.copy(demo, os.path.join(d, 'demo.py'))
        m2 = {
            'id': sid,
            'breaks_property': prop,
            'summary': m.get('summary'),
            'needs_to_manifest': m.get('needs_to_manifest'),
            'files_changed': m.get('files_changed'),
            'origin': origin or 'written by an independent sub-agent that saw only the property text and a scratch worktree',
            'author_tests_run': m.get('tests_run'),
            'verified_by_me': {
                'worktree': 'scratch git worktree of /repo at %s (removed afterwards)' % subprocess.check_output(['git', '-C', '/repo', 'rev-parse', '--short', 'HEAD']).decode().strip(),
                'demo_on_clean_tree': res['demo_clean'],
                'demo_with_patch': res['demo_patched'],
                'demo_output_tail': res['demo_output_tail'],
                'test_suite_with_patch': res.get('tests', 'skipped'),
                'commands': ['git apply patch.diff', '/venv/bin/python demo.py', '/venv/bin/python -m pytest -q -p no:cacheprovider --timeout=900 -n 12',
                             '/venv/bin/python -m sa.run --property Cxx --repo <worktree> --no-controls  (all 20)'],
            },
            'confirmed': ok,
            'static_checks_reporting_a_new_violation': caught,
            'caught_by_own_property_check': res['caught_by_own_property'],
        }
        json.dump(m2, open(os.path.join(d, 'meta.json'), 'w'), indent=1)
        print(json.dumps({k: res[k] for k in ('seed', 'demo_clean', 'demo_patched', 'confirmed', 'caught_by_own_property')}), 'caught:', {k: len(v) for k, v in caught.items()},
              'tests:', res.get('tests', {}).get('only_expected_failures'))
        return 0
    finally:
        sh('git -C /repo worktree remove --force %s' % wt)
        shutil.rmtree(wt, ignore_errors=True)


if __name__ == '__main__':
    sys.exit(main())
