#!/bin/bash
# usage: tools/sweep_par.sh [patch dirs...]: every check (quick tier, no controls) against every behaviour-preserving refactor patch,
# one scratch worktree per patch under /tmp/sw, 16 checks in parallel; prints only alarms / analysis errors.  Worktrees are removed at the end.
cd /verif
DIRS=${@:-/verif/refactors/*}
mkdir -p /tmp/sw
JOBS=/tmp/sw/jobs.txt; : > $JOBS
for D in $DIRS; do
  id=$(basename $D)
  [ -f $D/patch.diff ] || continue
  WT=/tmp/sw/$id
  git -C /repo worktree remove --force $WT 2>/dev/null
  git -C /repo worktree add -q --detach $WT HEAD || continue
  git -C $WT apply $D/patch.diff 2>/dev/null || { echo "$id: does not apply"; git -C /repo worktree remove --force $WT; continue; }
  for i in ${PROPS:-$(seq -w 1 20)}; do echo "$id C$i" >> $JOBS; done
done
run_one() {
  id=$1; p=$2
  out=$(VERIF_EVIDENCE_DIR=/tmp/sw/ev_${id}_$p timeout 600 /venv/bin/python -m sa.run --property $p --repo /tmp/sw/$id --no-controls 2>&1); rc=$?
  if [ $rc -ne 0 ]; then echo "$out" | grep -v "^KNOWN-FINDING" | grep -E "^  C[0-9]+\.R|ANALYSIS|Traceback" | cut -c1-${CUT:-170} | sed "s/^/[$id] /"; [ $rc -eq 124 ] && echo "[$id] $p TIMEOUT"; fi
}
export -f run_one
cat $JOBS | xargs -P 16 -L 1 bash -c 'run_one $0 $1'
for D in $DIRS; do git -C /repo worktree remove --force /tmp/sw/$(basename $D) 2>/dev/null; done
rm -rf /tmp/sw
echo "sweep done"
