#!/bin/bash
# usage: tools/try_patch.sh <patch.diff> <property> [more properties...]
# Applies the patch to a scratch worktree of /repo (created on demand under /tmp/vt), runs the
# quick checks against it (--repo), and restores the worktree.  /repo itself is never touched.
set -u
P=$1; shift
WT=/tmp/vt
if [ ! -d $WT ]; then git -C /repo worktree add -q --detach $WT HEAD || exit 3; fi
git -C $WT checkout -q --detach $(git -C /repo rev-parse HEAD) 2>/dev/null
git -C $WT checkout -q -- . && git -C $WT clean -qfd
git -C $WT apply "$P" || { echo "patch does not apply"; exit 3; }
for prop in "$@"; do
  ( cd /verif && /venv/bin/python -m sa.run --property $prop --repo $WT --no-controls 2>&1 | grep -v "^KNOWN-FINDING" | tail -${TAILN:-12} )
  echo "rc($prop)=$?"
done
git -C $WT checkout -q -- . && git -C $WT clean -qfd
