#!/bin/bash
# usage: tools/verify_wave.sh <suffix> <dir> <id...> : confirm the sub-agent seeds <dir>/<id>.out as /verif/seeded/<id>-<suffix>, then remove the agent's worktree <dir>/<id>
S=$1; D=$2; shift 2
cd /verif
for id in "$@"; do
  O=$D/$id.out
  if [ ! -f $O/patch.diff ] || [ ! -f $O/demo.py ] || [ ! -f $O/meta.json ]; then echo "$id: deliverables missing"; continue; fi
  timeout 3000 /venv/bin/python tools/verify_seed.py $id-$S $O/patch.diff $O/demo.py $O/meta.json 2>&1 | tail -2 | cut -c1-400
  git -C /repo worktree remove --force $D/$id 2>/dev/null
done
