#!/bin/bash
# usage: tools/try_all.sh <patch.diff> : run all 20 quick checks (no controls) against a scratch worktree with the patch
set -u
P=$1
WT=/tmp/vt
if [ ! -d $WT ]; then git -C /repo worktree add -q --detach $WT HEAD || exit 3; fi
git -C $WT checkout -q --detach $(git -C /repo rev-parse HEAD) 2>/dev/null
git -C $WT checkout -q -- . && git -C $WT clean -qfd
git -C $WT apply "$P" || { echo "patch does not apply"; exit 3; }
cd /verif
for i in $(seq -w 1 20); do
  out=$(timeout 300 /venv/bin/python -m sa.run --property C$i --repo $WT --no-controls 2>&1)
  rc=$?
  if [ $rc -ne 0 ]; then echo "== C$i rc=$rc"; echo "$out" | grep -v "^KNOWN-FINDING" | grep -E "^  C[0-9]+\.R|ANALYSIS|^      [a-z]" | cut -c1-${CUT:-260} | head -${HEADN:-12}; fi
done
git -C $WT checkout -q -- . && git -C $WT clean -qfd
